"""Replay of a violated obligation against the real binary built from /repo's tree (§2.6)."""
import json
import os
import re
import subprocess
import tempfile
import time

REPO = os.environ.get("VERIF_REPO", "/repo")
_built = {}


def build_binary():
    """cargo build --offline on the current working tree; returns path or None."""
    if "bin" in _built:
        return _built["bin"]
    env = dict(os.environ)
    env["CARGO_NET_OFFLINE"] = "true"
    tgt = os.environ.get("VERIF_TARGET_DIR", os.path.join(REPO, "target"))
    env["CARGO_TARGET_DIR"] = tgt
    p = subprocess.run(["cargo", "build", "--offline", "--quiet"], cwd=REPO, env=env,
                       capture_output=True, text=True)
    b = os.path.join(tgt, "debug", "garden")
    _built["bin"] = b if (p.returncode == 0 and os.path.exists(b)) else None
    _built["log"] = p.stderr[-2000:]
    return _built["bin"]


def _jsons(text):
    """decode a stream of concatenated (pretty-printed) JSON values"""
    dec, pos, out = json.JSONDecoder(), 0, []
    while True:
        while pos < len(text) and text[pos].isspace():
            pos += 1
        if pos >= len(text):
            return out
        try:
            obj, pos = dec.raw_decode(text, pos)
        except Exception:
            return out
        out.append(obj)


def run_witness(binpath, w):
    """Run one witness.  Returns dict(observed..., reproduced: bool)."""
    kind = w["kind"]
    tmpdir = tempfile.mkdtemp(prefix="garden_replay_", dir="/var/tmp")
    try:
        if kind == "run":          # garden run -c <program>
            cmd = [binpath, "run", "-c", w["input"]]
            stdin = None
        elif kind in ("check", "check-json", "check-fix", "format", "run-file", "ast", "test",
                      "sandboxed-test", "playground"):
            f = os.path.join(tmpdir, w.get("filename", "w.gdn"))
            with open(f, "w", encoding="utf-8") as fh:
                fh.write(w["input"])
            for name, text in w.get("extra_files", {}).items():
                with open(os.path.join(tmpdir, name), "w", encoding="utf-8") as fh:
                    fh.write(text)
            stdin = None
            cmd = {"check": [binpath, "check", f],
                   "check-json": [binpath, "check", "--json", f],
                   "check-fix": [binpath, "check", "--fix", "--stdout", f],
                   "format": [binpath, "format", f],
                   "run-file": [binpath, "run", f],
                   "ast": [binpath, "reftest-ast", f],
                   "test": [binpath, "test", f],
                   "playground": [binpath, "playground-run", f],
                   "sandboxed-test": [binpath, "sandboxed-test", f] + [str(x) for x in w.get("args", [])],
                   }[kind]
        elif kind == "roundtrip":
            # C12: print each value with string_repr, then evaluate the printed text and compare
            vals = w["input"]
            defs = w.get("defs", "")
            prog = defs + "\n".join("println(string_repr(%s))" % v for v in vals)
            f = os.path.join(tmpdir, "a.gdn")
            open(f, "w", encoding="utf-8").write(prog + "\n")
            p1 = subprocess.run([binpath, "run", f], capture_output=True, text=True, timeout=w.get("timeout", 30), cwd=tmpdir)
            printed = p1.stdout.split("\n")
            if printed and printed[-1] == "":
                printed = printed[:-1]
            bad_items = []
            if p1.returncode == 101 or "panicked at" in p1.stderr or len(printed) != len(vals):
                bad_items.append("printing failed: rc=%s lines=%d/%d %s" % (p1.returncode, len(printed), len(vals), p1.stderr[-200:]))
            else:
                prog2 = defs + "\n".join("println(string_repr((%s) == (%s)))" % (t, v) for t, v in zip(printed, vals))
                f2 = os.path.join(tmpdir, "b.gdn")
                open(f2, "w", encoding="utf-8").write(prog2 + "\n")
                p2 = subprocess.run([binpath, "run", f2], capture_output=True, text=True, timeout=w.get("timeout", 30), cwd=tmpdir)
                res = p2.stdout.split("\n")
                for k, v in enumerate(vals):
                    got = res[k] if k < len(res) else "<missing>"
                    if got != "True":
                        bad_items.append("%s printed as %s reads back %s" % (v, printed[k], got))
                if p2.returncode == 101 or "panicked at" in p2.stderr:
                    bad_items.append("re-evaluation crashed: " + p2.stderr[-200:])
            obs = {"cmd": "run a.gdn ; run b.gdn", "exit": p1.returncode, "stdout": p1.stdout[-800:], "stderr": p1.stderr[-400:],
                   "reproduced": bool(bad_items), "why": "; ".join(bad_items)[:1200]}
            return obs
        elif kind == "truncate-corpus":
            # C01 bounded stand-in: every sampled prefix / one-character deletion of the repo's own
            # .gdn files must be checked without a panic and within the time limit
            import glob
            import random
            from concurrent.futures import ThreadPoolExecutor
            rnd = random.Random(w.get("seed", 1))
            files = sorted(glob.glob(os.path.join(REPO, "src/test_files/**/*.gdn"), recursive=True)) + \
                sorted(glob.glob(os.path.join(REPO, "src/*.gdn")))
            rnd.shuffle(files)
            files = files[:w.get("n_files", 40)]
            jobs = []
            for fp in files:
                try:
                    txt = open(fp, encoding="utf-8").read()
                except Exception:
                    continue
                txt = txt.split("// args:")[0][:6000]
                n = len(txt)
                if n == 0:
                    continue
                for c in sorted(set(rnd.randrange(0, n + 1) for _ in range(w.get("n_cuts", 6)))):
                    jobs.append((fp, "prefix %d" % c, txt[:c]))
                for _ in range(w.get("n_deletes", 2)):
                    if n > 2:
                        i = rnd.randrange(0, n - 1)
                        jobs.append((fp, "delete char %d" % i, txt[:i] + txt[i + 1:]))
                # non-ASCII injections: a multi-byte character at random offsets and right after
                # comment / string / token starts (where byte-wise slicing would go wrong)
                uni = ["\u00a0", "\u3000", "\u00e9", "\u2192", "\u2028", "\U0001F600"]
                anchors = [m.end() for m in re.finditer(r"///?|\"|\(|\{|:|,|=", txt)]
                if w.get("n_unicode", 0):
                    for m in list(re.finditer(r"(?m)^\s*///?", txt))[:3]:
                        for ch in ("\u3000", "\u00e9"):
                            jobs.append((fp, "insert U+%04X after comment start at %d" % (ord(ch), m.end()), txt[:m.end()] + ch + txt[m.end():]))
                for _ in range(w.get("n_unicode", 0)):
                    ch = rnd.choice(uni)
                    i = rnd.choice(anchors) if anchors and rnd.random() < 0.7 else rnd.randrange(0, n + 1)
                    jobs.append((fp, "insert U+%04X at %d" % (ord(ch), i), txt[:i] + ch + txt[i:]))
            for extra in w.get("input", []):
                jobs.append(("<listed>", "listed", extra))

            def one(job):
                (fp, what, text) = job
                import hashlib
                f = os.path.join(tmpdir, hashlib.md5(text.encode()).hexdigest() + ".gdn")
                with open(f, "w", encoding="utf-8") as fh:
                    fh.write(text)
                try:
                    p = subprocess.run([binpath, "check", f], capture_output=True, text=True, timeout=w.get("timeout", 20))
                    if p.returncode == 101 or "panicked at" in (p.stdout + p.stderr):
                        m = re.search(r"panicked at ([^\n]*)", p.stdout + p.stderr)
                        return "%s %s: panic %s; input tail %r" % (os.path.relpath(fp, REPO) if fp != "<listed>" else fp, what, m.group(1) if m else "", text[-60:])
                except subprocess.TimeoutExpired:
                    return "%s %s: no result within %ds; input tail %r" % (os.path.relpath(fp, REPO) if fp != "<listed>" else fp, what, w.get("timeout", 20), text[-60:])
                return None
            with ThreadPoolExecutor(max_workers=w.get("workers", 12)) as ex:
                bad_items = [r for r in ex.map(one, jobs) if r]
            return {"cmd": "check <%d generated inputs>" % len(jobs), "exit": 0, "stdout": "", "stderr": "",
                    "reproduced": bool(bad_items), "why": "; ".join(bad_items[:5])[:1500], "n_inputs": len(jobs)}
        elif kind == "interrupt-session":
            # C08: each program sends a signal to its own interpreter from inside shell::run
            # (`kill -SIG $PPID`): SIG=INT is a Ctrl-C landing at a known evaluation step, SIG=0 is a
            # no-op.  After each interrupt a `:resume` follows.  Output and first completed result of
            # the interrupted+resumed session must equal those of the plain session.
            def session(prog, sig):
                f = os.path.join(tmpdir, "s_%s.jsonl" % sig)
                with open(f, "w", encoding="utf-8") as fh:
                    if prog.get("defs"):
                        fh.write(json.dumps({"method": "run", "input": prog["defs"].replace("SIG", sig)}) + "\n")
                    req = {"method": "run", "input": prog["body"].replace("SIG", sig)}
                    if prog.get("with_path"):
                        # an editor evaluating a buffer: the run names a file, whose namespace differs from the session's
                        req["path"] = os.path.join(tmpdir, "buffer.gdn")
                    fh.write(json.dumps(req) + "\n")
                    for _ in range(prog.get("resumes", 3)):
                        fh.write(json.dumps({"method": "run", "input": ":resume"}) + "\n")
                p = subprocess.run([binpath, "reftest-json-session", f], capture_output=True, text=True, timeout=w.get("timeout", 60), cwd=tmpdir)
                if p.returncode == 101 or "panicked at" in p.stderr:
                    return ("PANIC", p.stderr[-200:])
                dec = json.JSONDecoder()
                text, pos, printed, result = p.stdout, 0, "", None
                while True:
                    while pos < len(text) and text[pos].isspace():
                        pos += 1
                    if pos >= len(text):
                        break
                    try:
                        obj, pos = dec.raw_decode(text, pos)
                    except Exception:
                        break
                    k = obj.get("kind", {})
                    if "printed" in k:
                        printed += k["printed"]["s"]
                    elif "evaluate" in k and result is None:
                        v = k["evaluate"]["value"]
                        if "Ok" in v:
                            if str(v["Ok"]).startswith("Loaded "):
                                continue
                            result = v["Ok"]
                        elif v["Err"][0]["message"] != "Interrupted":
                            result = "ERROR: " + v["Err"][0]["message"]
                return (printed, result)
            bad_items, failing = [], []
            for i, prog in enumerate(w["input"]):
                try:
                    plain, intr = session(prog, "0"), session(prog, "INT")
                except subprocess.TimeoutExpired:
                    bad_items.append("program %d: timeout" % i)
                    failing.append(prog)
                    continue
                if plain != intr:
                    bad_items.append("program %d (%s): uninterrupted %r, interrupted+resumed %r" % (i, prog.get("what", ""), plain, intr))
                    failing.append(prog)
            return {"cmd": "reftest-json-session <%d programs, plain and interrupted>" % len(w["input"]), "exit": 0, "stdout": "", "stderr": "",
                    "reproduced": bool(bad_items), "why": "; ".join(bad_items[:4])[:1500], "n_inputs": len(w["input"]), "failing_inputs": failing[:4]}
        elif kind == "frontend-nopanic":
            # a list of program texts: `garden check`, `garden format` and `garden reftest-ast` on each must end without
            # a panic, a crash by signal or a timeout (whatever diagnostics they print)
            from concurrent.futures import ThreadPoolExecutor
            items = w["input"]
            cmds = w.get("commands", ["check", "format", "reftest-ast"])

            def one(i):
                f = os.path.join(tmpdir, "f%d.gdn" % i)
                open(f, "w", encoding="utf-8").write(items[i])
                for c in cmds:
                    try:
                        p = subprocess.run([binpath, c, f], capture_output=True, text=True, timeout=30, cwd=tmpdir, stdin=subprocess.DEVNULL, errors="replace")
                    except subprocess.TimeoutExpired:
                        return "`%s` timed out on %r" % (c, items[i][:80])
                    if p.returncode == 101 or p.returncode < 0 or "panicked at" in p.stderr:
                        return "`%s` crashed on %r: %s" % (c, items[i][:80], (p.stderr.strip().splitlines() or ["status %d" % p.returncode])[0][:140])
                return None
            with ThreadPoolExecutor(max_workers=12) as ex:
                res = list(ex.map(one, range(len(items))))
            bad_items = [r for r in res if r]
            return {"cmd": "%s <%d programs>" % ("/".join(cmds), len(items)), "exit": 0, "stdout": "", "stderr": "",
                    "reproduced": bool(bad_items), "why": "; ".join(bad_items[:5])[:1500], "n_inputs": len(items),
                    "failing_inputs": [items[i] for i, r in enumerate(res) if r][:6]}
        elif kind == "prelude-reference":
            # w["input"]: {function: [{"expr": garden expression, "expected": garden literal or None}]}: one program per
            # function compares every call with the literal the reference implementation gives (None: the call only has
            # to end without a crash or a timeout)
            from concurrent.futures import ThreadPoolExecutor
            groups = sorted(w["input"].items())

            def one(g):
                fn, cs = g
                lines = ["fun chk(id: Int, ok: Bool) { if not(ok) { println(\"MISMATCH \" ^ string_repr(id)) } }"]
                for i, c in enumerate(cs):
                    if c["expected"] is None:
                        lines.append("let t%d = %s" % (i, c["expr"]))
                    else:
                        lines.append("chk(%d, (%s) == (%s))" % (i, c["expr"], c["expected"]))
                lines.append("println(\"END\")")
                f = os.path.join(tmpdir, "ref_%s.gdn" % re.sub(r"\W+", "_", fn))
                open(f, "w", encoding="utf-8").write("\n".join(lines) + "\n")
                try:
                    p = subprocess.run([binpath, "run", f], capture_output=True, text=True, timeout=w.get("timeout_each", 60), cwd=tmpdir, stdin=subprocess.DEVNULL)
                except subprocess.TimeoutExpired:
                    return [(fn, "does not finish within %d s (first call: %s)" % (w.get("timeout_each", 60), cs[0]["expr"]), cs[0]["expr"])]
                bad = []
                for ln in p.stdout.split("\n"):
                    if ln.startswith("MISMATCH "):
                        c = cs[int(ln.split()[1])]
                        bad.append((fn, "%s is not %s" % (c["expr"], c["expected"]), c["expr"]))
                if p.returncode == 101 or "panicked at" in p.stderr:
                    bad.append((fn, "panicked: " + (p.stderr.strip().splitlines() or [""])[0][:160], ""))
                elif "END" not in p.stdout:
                    bad.append((fn, "stopped early: " + (p.stdout + p.stderr).strip()[-240:], ""))
                return bad
            with ThreadPoolExecutor(max_workers=8) as ex:
                res = [b for r in ex.map(one, groups) for b in r]
            return {"cmd": "run <%d programs, %d calls>" % (len(groups), sum(len(c) for _f, c in groups)), "exit": 0, "stdout": "", "stderr": "",
                    "reproduced": bool(res), "why": "; ".join("%s: %s" % (a, b) for (a, b, _c) in res[:8])[:1800],
                    "n_inputs": sum(len(c) for _f, c in groups), "failing_inputs": [c for (_a, _b, c) in res if c][:12],
                    "failures": [[a, b] for (a, b, _c) in res][:200]}
        elif kind == "lsp-fix-ranges":
            # for each program: the quick-fix edits the language server offers for the whole document, applied as the
            # LSP specification defines ranges (0-based line, UTF-16 column), must give the text `check --fix --stdout`
            # gives (which applies the same fixes by byte offset); every range must lie inside the document
            from concurrent.futures import ThreadPoolExecutor
            progs = list(w["input"])
            overlapping = []

            def one(i):
                src_ = progs[i]
                f = os.path.join(tmpdir, "q%d.gdn" % i)
                open(f, "w", encoding="utf-8").write(src_)
                uri = "file://" + f
                n_lines = src_.count("\n") + 1
                msgs = [{"jsonrpc": "2.0", "method": "textDocument/didOpen", "params": {"textDocument": {"uri": uri, "languageId": "garden", "version": 1, "text": src_}}},
                        {"jsonrpc": "2.0", "id": 1, "method": "textDocument/codeAction", "params": {"textDocument": {"uri": uri},
                         "range": {"start": {"line": 0, "character": 0}, "end": {"line": n_lines, "character": 0}}, "context": {"diagnostics": []}}}]
                sf = os.path.join(tmpdir, "q%d.jsonl" % i)
                with open(sf, "w", encoding="utf-8") as fh:
                    for m_ in msgs:
                        fh.write(json.dumps(m_, ensure_ascii=False) + "\n")
                try:
                    p1 = subprocess.run([binpath, "reftest-lsp", sf], capture_output=True, text=True, timeout=60)
                    p2 = subprocess.run([binpath, "check", "--fix", "--stdout", f], capture_output=True, text=True, timeout=60)
                except subprocess.TimeoutExpired:
                    return "timeout on %r" % src_[:60]
                if p1.returncode == 101 or p2.returncode == 101:
                    return "panicked on %r" % src_[:60]
                resp = [v for v in _jsons(p1.stdout) if isinstance(v, dict) and v.get("id") == 1]
                if not resp or not isinstance(resp[0].get("result"), list):
                    return None
                edits, titles = [], {}
                for action in resp[0]["result"]:
                    if action.get("kind") != "quickfix" or "edit" not in action:
                        continue
                    for es in (action["edit"].get("changes") or {}).values():
                        for e in es:
                            edits.append((e["range"], e["newText"]))
                            titles[json.dumps(e["range"], sort_keys=True)] = action.get("title", "")
                if not edits:
                    return None
                lines = src_.split("\n")
                starts = [0]
                for l in lines[:-1]:
                    starts.append(starts[-1] + len(l) + 1)

                def to_off(pos):
                    line, ch = pos["line"], pos["character"]
                    if line >= len(lines):
                        return None
                    units = 0
                    for idx, c in enumerate(lines[line]):
                        if units == ch:
                            return starts[line] + idx
                        units += 2 if ord(c) > 0xFFFF else 1
                    return starts[line] + len(lines[line]) if units == ch else None
                spans = []
                for rng, nt in edits:
                    a, b = to_off(rng["start"]), to_off(rng["end"])
                    if a is None or b is None or a > b:
                        return "a quick-fix range %d:%d-%d:%d is not inside the document %r" % (rng["start"]["line"], rng["start"]["character"], rng["end"]["line"], rng["end"]["character"], src_[:80])
                    spans.append((a, b, nt, titles.get(json.dumps(rng, sort_keys=True), "")))
                spans = sorted(set(spans), reverse=True)
                for k in range(len(spans) - 1):
                    if spans[k + 1][1] > spans[k][0]:
                        if spans[k + 1][3] == spans[k][3]:
                            # two edits of the same quick fix (e.g. the two halves of "unnecessary let") overlap
                            return "two edits of the quick fix %r overlap: bytes %d..%d and %d..%d (program %r)" % (spans[k][3], spans[k + 1][0], spans[k + 1][1], spans[k][0], spans[k][1], src_[:80])
                        overlapping.append(src_[:60])
                        return None          # fixes of different lints overlap: the command line applies them in rounds, not comparable
                spans = [x[:3] for x in spans]
                res = src_
                for a, b, nt in spans:
                    res = res[:a] + nt + res[b:]
                want = p2.stdout
                if not src_.endswith("\n") and want.endswith("\n"):
                    want = want[:-1]          # `--stdout` ends its output with a newline
                if res != want:
                    return "applying the quick-fix ranges as LSP defines them gives %r, `check --fix` gives %r (program %r)" % (res[:200], p2.stdout[:200], src_[:80])
                return None
            with ThreadPoolExecutor(max_workers=8) as ex:
                res = list(ex.map(one, range(len(progs))))
            bad_items = [r for r in res if r]
            return {"cmd": "reftest-lsp codeAction / check --fix <%d programs>" % len(progs), "exit": 0, "stdout": "", "stderr": "",
                    "reproduced": bool(bad_items), "why": "; ".join(bad_items[:4])[:1800], "n_inputs": len(progs), "overlapping": overlapping,
                    "failing_inputs": [progs[i] for i, r in enumerate(res) if r][:6]}
        elif kind in ("wrap-dbg-corpus", "refactor-corpus"):
            # C21 bounded stand-in: wrap_in_dbg at every cursor position (every char boundary, empty selection) of each
            # program; each distinct wrapped program must parse, print the same standard output and end with the same
            # status as the original (dbg writes to standard error only)
            from concurrent.futures import ThreadPoolExecutor
            jobs = []
            for pi, src_ in enumerate(w["input"]):
                f0 = os.path.join(tmpdir, "w%d.gdn" % pi)
                open(f0, "w", encoding="utf-8").write(src_)
                b = src_.encode("utf-8")
                offs = [(i, i) for i in range(len(b) + 1) if i == len(b) or (b[i] & 0xC0) != 0x80]
                if w.get("selections") == "lines":
                    # also every run of whole lines (first non-blank byte of a line .. end of the text of a later line)
                    starts, ends, at = [], [], 0
                    for ln in src_.split("\n"):
                        lb = ln.encode("utf-8")
                        if ln.strip():
                            starts.append(at + len(lb) - len(lb.lstrip()))
                            ends.append(at + len(lb.rstrip()))
                        at += len(lb) + 1
                    offs += [(a, e) for a in starts for e in ends if a < e]
                if w.get("pure_selections"):
                    # C20 speaks of side-effect-free selections: leave out a selection that holds a `return` / `break` /
                    # `continue`, or a `let` whose name is read after the selection (the binding cannot leave a function)
                    import re as _re
                    lets = [(m.start(), m.end(), _re.findall(r"\w+", m.group(1))) for m in _re.finditer(r"\blet\s+(\w+|\([^)]*\))(?:\s*:[^=\n]+)?\s*=\s*", src_)]
                    jumps = [(m.start(), m.end()) for m in _re.finditer(r"\b(?:return|break|continue)\b[ \t]*", src_)]
                    cix_ = {}
                    at_ = 0
                    for ci_, ch_ in enumerate(src_):
                        cix_[at_] = ci_
                        at_ += len(ch_.encode("utf-8"))
                    cix_[at_] = len(src_)

                    def pure(oe):
                        a, e = cix_[oe[0]], cix_[oe[1]]
                        if a == e:
                            return not any(x <= a < y for x, y, _ in lets) and not any(x <= a < y for x, y in jumps)
                        if any(a <= x < e for x, _ in jumps):
                            return False
                        rest = src_[e:]
                        return not any(a <= x < e and any(_re.search(r"\b%s\b" % n, rest) for n in ns) for x, _, ns in lets)
                    offs = [oe for oe in offs if pure(oe)]
                jobs.append((pi, f0, offs))
            bad_items, failing, n_wrapped = [], [], 0
            for (pi, f0, offs) in jobs:
                try:
                    r0 = subprocess.run([binpath, "run", f0], capture_output=True, text=True, timeout=60, cwd=tmpdir)
                except subprocess.TimeoutExpired:
                    bad_items.append("program %d: the original timed out" % pi)
                    continue

                def wrap(oe, f0=f0):
                    o = oe
                    try:
                        tmpl = w.get("command") or ["reftest-wrap-in-dbg", "{file}", "{offset}", "{offset}"]
                        return o, subprocess.run([binpath] + [a.replace("{file}", f0).replace("{offset}", str(oe[0])).replace("{end}", str(oe[1])) for a in tmpl], capture_output=True, text=True, timeout=60, cwd=tmpdir)
                    except subprocess.TimeoutExpired:
                        return o, None
                with ThreadPoolExecutor(max_workers=8) as ex:
                    wrapped = list(ex.map(wrap, offs))
                seen = {}
                for o, p in wrapped:
                    if p is None or p.returncode == 101 or "panicked at" in (p.stderr or ""):
                        bad_items.append("program %d selection %d..%d: the refactoring crashed or timed out" % (pi, o[0], o[1]))
                        failing.append(w["input"][pi])
                        continue
                    if p.returncode != 0:
                        continue          # no expression at this position
                    seen.setdefault(p.stdout, o)

                def run(item, pi=pi):
                    text, o = item
                    f1 = os.path.join(tmpdir, "w%d_at%d_%d.gdn" % (pi, o[0], o[1]))
                    open(f1, "w", encoding="utf-8").write(text)
                    try:
                        return o, text, subprocess.run([binpath, "run", f1], capture_output=True, text=True, timeout=60, cwd=tmpdir)
                    except subprocess.TimeoutExpired:
                        return o, text, None
                with ThreadPoolExecutor(max_workers=8) as ex:
                    ran = list(ex.map(run, list(seen.items())))
                n_wrapped += len(ran)
                def n_errors(path_):
                    try:
                        pc = subprocess.run([binpath, "check", "--json", path_], capture_output=True, text=True, timeout=60, cwd=tmpdir)
                    except subprocess.TimeoutExpired:
                        return 10 ** 6
                    if pc.returncode == 101 or "panicked at" in pc.stderr:
                        return 10 ** 6
                    k = 0
                    for ln in pc.stdout.split("\n"):
                        try:
                            if json.loads(ln).get("severity") == "error":
                                k += 1
                        except Exception:
                            pass
                    return k
                e0 = n_errors(f0) if w.get("check_errors_not_more") else 0
                for o, text, r1 in ran:
                    e1 = n_errors(os.path.join(tmpdir, "w%d_at%d_%d.gdn" % (pi, o[0], o[1]))) if w.get("check_errors_not_more") else 0
                    if r1 is None:
                        why = "timed out"
                    elif e1 > e0:
                        why = "`check` reports %d errors, the original %d" % (e1, e0)
                    elif (r1.stdout, r1.returncode) != (r0.stdout, r0.returncode):
                        why = "prints %r / status %s, the original %r / status %s" % (r1.stdout[-120:], r1.returncode, r0.stdout[-120:], r0.returncode)
                    else:
                        continue
                    bad_items.append("program %d rewritten for the selection %d..%d (%r): %s" % (pi, o[0], o[1], w["input"][pi][o[0]:max(o[1], o[0] + 30)][:80], why))
                    failing.append(text)
            return {"cmd": "%s / run <%d programs, %d rewritten variants>" % ((w.get("command") or ["reftest-wrap-in-dbg"])[0], len(jobs), n_wrapped), "exit": 0, "stdout": "", "stderr": "",
                    "reproduced": bool(bad_items) or n_wrapped < w.get("min_inputs", 1), "why": ("; ".join(bad_items[:4]) if bad_items else "only %d wrapped variants" % n_wrapped)[:1800],
                    "n_inputs": n_wrapped, "failing_inputs": failing[:6]}
        elif kind == "test-isolation":
            # C26 bounded stand-in: for each project (files + the file arguments of `garden test`): the verdict of every
            # test is the same in the full run, in the run with the files in reverse order, and alone via `-n NAME`;
            # every run's exit status is non-zero exactly when it prints a `Failed:` line
            import re as _re
            bad_items, failing, n_runs = [], [], 0
            for pi, it in enumerate(w["input"]):
                d = os.path.join(tmpdir, "t%d" % pi)
                os.makedirs(d, exist_ok=True)
                for name, text in it["files"].items():
                    with open(os.path.join(d, name), "w", encoding="utf-8") as fh:
                        fh.write(text)
                names = []
                for a in it["args"]:
                    names += _re.findall(r"^test\s+(\w+)", it["files"][a], flags=_re.M)

                def run_t(extra, order, d=d):
                    try:
                        p = subprocess.run([binpath, "test"] + [os.path.join(d, a) for a in order] + extra, capture_output=True, text=True, timeout=120, cwd=d, stdin=subprocess.DEVNULL)
                    except subprocess.TimeoutExpired:
                        return None
                    o = p.stdout + p.stderr
                    failed = set(_re.findall(r"^Failed: (\w+) ", o, flags=_re.M))
                    return p.returncode, failed, o
                full = run_t([], it["args"])
                n_runs += 1
                what = it.get("what", "project %d" % pi)
                if full is None or full[0] == 101 or "panicked at" in full[2]:
                    bad_items.append("%s: the full run crashed or timed out" % what)
                    failing.append(it)
                    continue
                if (full[0] != 0) != bool(full[1]):
                    bad_items.append("%s: exit status %s with failed tests %s" % (what, full[0], sorted(full[1])))
                    failing.append(it)
                m_ = _re.search(r"Ran (\d+) tests?:", full[2])
                if not m_ or int(m_.group(1)) != len(names):
                    bad_items.append("%s: the summary does not count the %d tests: %r" % (what, len(names), full[2][-160:]))
                    failing.append(it)
                rev = run_t([], list(reversed(it["args"])))
                n_runs += 1
                if rev is None or rev[1] != full[1] or (rev[0] != 0) != (full[0] != 0):
                    bad_items.append("%s: with the files in reverse order the failed tests are %s, not %s" % (what, None if rev is None else sorted(rev[1]), sorted(full[1])))
                    failing.append(it)
                for nm in names:
                    alone = run_t(["-n", nm], it["args"])
                    n_runs += 1
                    if alone is None or alone[0] == 101:
                        bad_items.append("%s: `-n %s` crashed or timed out" % (what, nm))
                        failing.append(it)
                        continue
                    others = {x for x in alone[1] if x != nm}
                    if (nm in alone[1]) != (nm in full[1]):
                        bad_items.append("%s: test %s %s alone (-n) but %s in the full run: %r" % (what, nm, "fails" if nm in alone[1] else "passes", "fails" if nm in full[1] else "passes", alone[2][-200:]))
                        failing.append(it)
                    elif (alone[0] != 0) != bool(alone[1]):
                        bad_items.append("%s: `-n %s` exits with %s with failed tests %s" % (what, nm, alone[0], sorted(alone[1])))
                        failing.append(it)
            return {"cmd": "test <%d projects, %d runs>" % (len(w["input"]), n_runs), "exit": 0, "stdout": "", "stderr": "",
                    "reproduced": bool(bad_items), "why": "; ".join(bad_items[:4])[:1600], "n_inputs": n_runs, "failing_inputs": failing[:3]}
        elif kind == "project-corpus":
            # several small multi-file projects; for each: `garden <cmd> <main>` in its own directory must not crash or
            # hang, and its output must (not) contain the listed texts
            bad_items, failing = [], []
            for i, it in enumerate(w["input"]):
                d = os.path.join(tmpdir, "proj%d" % i)
                os.makedirs(d, exist_ok=True)
                for name, text in it["files"].items():
                    with open(os.path.join(d, name), "w", encoding="utf-8") as fh:
                        fh.write(text)
                for c in it.get("cmds", ["check", "run"]):
                    try:
                        p = subprocess.run([binpath, c, os.path.join(d, it["main"])], capture_output=True, text=True, timeout=30, cwd=d, stdin=subprocess.DEVNULL)
                    except subprocess.TimeoutExpired:
                        bad_items.append("%s: `%s` does not finish" % (it.get("what", i), c))
                        failing.append(it)
                        continue
                    o = p.stdout + p.stderr
                    if p.returncode == 101 or p.returncode < 0 or "panicked at" in o:
                        bad_items.append("%s: `%s` crashed: %s" % (it.get("what", i), c, ([l for l in o.splitlines() if "panicked" in l or "overflow" in l] or [""])[0][:160]))
                        failing.append(it)
                        continue
                    for t in it.get(c + "_contains", []):
                        if t not in o:
                            bad_items.append("%s: `%s` output lacks %r: %r" % (it.get("what", i), c, t, o[-200:]))
                            failing.append(it)
                    for t in it.get(c + "_not_contains", []):
                        if t in o:
                            bad_items.append("%s: `%s` output contains %r" % (it.get("what", i), c, t))
                            failing.append(it)
            return {"cmd": "check / run <%d projects>" % len(w["input"]), "exit": 0, "stdout": "", "stderr": "",
                    "reproduced": bool(bad_items), "why": "; ".join(bad_items[:4])[:1600], "n_inputs": len(w["input"]), "failing_inputs": failing[:4]}
        elif kind == "check-matrix":
            # a list of small programs, each with the verdict `garden check` must give
            # (expect_error: True = at least one error diagnostic, False = none)
            from concurrent.futures import ThreadPoolExecutor
            items = w["input"]

            def one(i):
                it = items[i]
                f = os.path.join(tmpdir, "m%d.gdn" % i)
                open(f, "w", encoding="utf-8").write(it["src"])
                try:
                    p = subprocess.run([binpath, "check", "--json", f], capture_output=True, text=True, timeout=30, cwd=tmpdir)
                except subprocess.TimeoutExpired:
                    return "%s: timeout" % it.get("what", i)
                if p.returncode == 101 or "panicked at" in p.stderr:
                    return "%s: check panicked" % it.get("what", i)
                n = 0
                for ln in p.stdout.split("\n"):
                    try:
                        if json.loads(ln).get("severity") == "error":
                            n += 1
                    except Exception:
                        pass
                if (n > 0) != bool(it["expect_error"]):
                    return "%s: check reported %d errors, expected %s" % (it.get("what", i), n, "an error" if it["expect_error"] else "none")
                return None
            with ThreadPoolExecutor(max_workers=8) as ex:
                res = list(ex.map(one, range(len(items))))
            bad_items = [r for r in res if r]
            return {"cmd": "check --json <%d programs>" % len(items), "exit": 0, "stdout": "", "stderr": "",
                    "reproduced": bool(bad_items), "why": "; ".join(bad_items[:6])[:1500], "n_inputs": len(items),
                    "failing_inputs": [items[i]["src"] for i, r in enumerate(res) if r][:6]}
        elif kind == "run-matrix":
            # small programs that call `accept(VALUE)`: the runtime argument check must accept (prints
            # "accepted") or reject (a Garden exception) as the item says
            from concurrent.futures import ThreadPoolExecutor
            items = w["input"]

            def one(i):
                it = items[i]
                f = os.path.join(tmpdir, "r%d.gdn" % i)
                open(f, "w", encoding="utf-8").write(it["src"])
                try:
                    p = subprocess.run([binpath, "run", f], capture_output=True, text=True, timeout=30, cwd=tmpdir)
                except subprocess.TimeoutExpired:
                    return "%s: timeout" % it.get("what", i)
                o = p.stdout + p.stderr
                if p.returncode == 101 or "panicked at" in o:
                    return "%s: panicked" % it.get("what", i)
                got = True if p.stdout.startswith("accepted") else (False if "Exception: Expected" in o else None)
                if got is None:
                    return "%s: unexpected output %r" % (it.get("what", i), o[-160:])
                if got != bool(it["expect_accept"]):
                    return "%s: %s, the property says %s" % (it.get("what", i), "accepted" if got else "rejected", "accept" if it["expect_accept"] else "reject")
                return None
            with ThreadPoolExecutor(max_workers=8) as ex:
                res = list(ex.map(one, range(len(items))))
            bad_items = [r for r in res if r]
            return {"cmd": "run <%d programs>" % len(items), "exit": 0, "stdout": "", "stderr": "",
                    "reproduced": bool(bad_items), "why": "; ".join(bad_items[:6])[:1500], "n_inputs": len(items),
                    "failing_inputs": [items[i]["src"] for i, r in enumerate(res) if r][:6]}
        elif kind == "builtin-args":
            # every built-in declared in the prelude files named by w["preludes"] (found by
            # `__BUILT_IN_IMPLEMENTATION` on each run) is called with a wrongly typed value in each argument
            # position in turn, with one argument too few and with one too many: none of these may panic
            import re as _re
            from concurrent.futures import ThreadPoolExecutor
            SAMPLE = [("String", '"abc"'), ("Int", "1"), ("Float", "1.5"), ("Bool", "True"), ("List", "[]"),
                      ("Dict", "Dict[]"), ("Path", 'Path{ p: "/nonexistent_zz" }')]

            def sample(ty, wrong):
                ty = ty.strip()
                if wrong:
                    return "1" if ty.startswith("Bool") else ("True" if not ty.startswith("Int") else '"x"')
                for k, v in SAMPLE:
                    if ty.startswith(k):
                        return v
                return "1"
            progs = []
            for rel in w["preludes"]:
                try:
                    text = open(os.path.join(REPO, rel), encoding="utf-8").read()
                except OSError:
                    continue
                for m in _re.finditer(r"(method|fun)\s+(\w+)(?:<[^>]*>)?\(([^)]*)\)[^{]*\{\s*__BUILT_IN_IMPLEMENTATION", text):
                    if m.group(2) in w.get("skip", []):
                        continue
                    params = [q.split(":", 1)[1] for q in m.group(3).split(",") if ":" in q]
                    is_m = m.group(1) == "method"

                    def call(vals, name=m.group(2), is_m=is_m):
                        if is_m:
                            return "%s.%s(%s)" % (vals[0], name, ", ".join(vals[1:]))
                        return "%s(%s)" % (name, ", ".join(vals))
                    good = [sample(t, False) for t in params]
                    first = 1 if is_m else 0
                    for k in range(first, len(params)):
                        wrongs = [sample(params[k], True), "None", '"x"']
                        # values whose printed form is long and full of multi-byte characters, at every alignment: an error
                        # message that cuts the printed value at a byte offset must not split a character
                        wrongs += ['(%d, ["%s%s"])' % (j, "xyz"[:j], "\U0001F600" * 40) for j in range(4)] + ['Some(["x%s"])' % ("\u00e9" * 60)]
                        if params[k].strip().startswith("List"):
                            # a list whose static element type is not what it holds at run time
                            wrongs += ['[1, 2].append("x")', '["a"].append(1)', "[None]", "[[]]"]
                        for wrongv in wrongs:
                            progs.append(call(good[:k] + [wrongv] + good[k + 1:]))
                    if len(params) > first:
                        progs.append(call(good[:-1]))
                    progs.append(call(good + ["1"]))
                    progs.append(call(good))
            progs = sorted(set(progs))

            def one(src_):
                try:
                    p = subprocess.run([binpath, "run", "-c", src_], capture_output=True, text=True, timeout=30,
                                       cwd=tmpdir, stdin=subprocess.DEVNULL)
                except subprocess.TimeoutExpired:
                    return "timeout"
                if p.returncode == 101 or "panicked at" in p.stdout + p.stderr:
                    return "panicked: " + (p.stderr.strip().splitlines() or [""])[0][:160]
                return None
            with ThreadPoolExecutor(max_workers=8) as ex:
                res = list(ex.map(one, progs))
            bad_items = ["%s: %s" % (progs[i], r) for i, r in enumerate(res) if r]
            return {"cmd": "run -c <%d calls of built-ins>" % len(progs), "exit": 0, "stdout": "", "stderr": "",
                    "reproduced": bool(bad_items) or len(progs) < w.get("min_inputs", 1),
                    "why": ("; ".join(bad_items[:6]) if bad_items else "only %d calls generated" % len(progs))[:1500],
                    "n_inputs": len(progs), "failing_inputs": [progs[i] for i, r in enumerate(res) if r][:6]}
        elif kind == "lsp-sweep":
            # several LSP sessions (each a witness of kind "lsp" with its own oracle), run in parallel
            from concurrent.futures import ThreadPoolExecutor
            with ThreadPoolExecutor(max_workers=6) as ex:
                res = list(ex.map(lambda w1: run_witness(binpath, w1), w["input"]))
            bad_items = ["%s: %s" % (w1.get("note", i), r.get("why", "")) for i, (w1, r) in enumerate(zip(w["input"], res)) if r.get("reproduced")]
            return {"cmd": "reftest-lsp <%d sessions>" % len(res), "exit": 0, "stdout": "", "stderr": "\n".join(r.get("stderr", "")[-300:] for r in res if r.get("reproduced"))[-1500:],
                    "reproduced": bool(bad_items), "why": "; ".join(bad_items)[:1500], "n_inputs": sum(len(w1["input"]) for w1 in w["input"])}
        elif kind == "fix-corpus":
            # C22 bounded stand-in: run each program, apply `check --fix` until nothing changes,
            # require that the result still parses (no new error diagnostics), prints the same output
            # and ends with the same status, and that a fixed point is reached within max_rounds
            from concurrent.futures import ThreadPoolExecutor
            progs = list(w["input"])
            import glob
            for fp in sorted(glob.glob(os.path.join(REPO, w.get("fixtures", "src/test_files/check_fix/*.gdn")))):
                try:
                    progs.append(open(fp, encoding="utf-8").read().split("// args:")[0])
                except Exception:
                    pass
            max_rounds = w.get("max_rounds", 5)

            def errors_of(f):
                p = subprocess.run([binpath, "check", "--json", f], capture_output=True, text=True, timeout=30, cwd=tmpdir)
                if p.returncode == 101 or "panicked at" in p.stderr:
                    return None
                n = 0
                for ln in p.stdout.split("\n"):
                    try:
                        if json.loads(ln).get("severity") == "error":
                            n += 1
                    except Exception:
                        pass
                return n

            def one(idx):
                text = progs[idx]
                f = os.path.join(tmpdir, "p%d.gdn" % idx)
                open(f, "w", encoding="utf-8").write(text)
                try:
                    e0 = errors_of(f)
                    r0 = subprocess.run([binpath, "run", f], capture_output=True, text=True, timeout=30, cwd=tmpdir)
                    cur = text
                    rounds = 0
                    while True:
                        p = subprocess.run([binpath, "check", "--fix", "--stdout", f], capture_output=True, text=True, timeout=30, cwd=tmpdir)
                        if p.returncode == 101 or "panicked at" in p.stderr:
                            return "program %d: check --fix panicked: %s" % (idx, p.stderr[-200:])
                        new = p.stdout
                        if new == cur or new.strip() == "":
                            break
                        rounds += 1
                        if rounds > max_rounds:
                            return "program %d: no fixed point after %d rounds of --fix" % (idx, max_rounds)
                        cur = new
                        open(f, "w", encoding="utf-8").write(cur)
                    if cur == text:
                        return None
                    e1 = errors_of(f)
                    if e0 == 0 and e1 != 0:
                        return "program %d: fixed program no longer checks cleanly (%s error diagnostics): %r -> %r" % (idx, e1, text[:120], cur[:160])
                    # C22 as stated: the result still parses; if the original ran without error, same output and result
                    r1 = subprocess.run([binpath, "run", f], capture_output=True, text=True, timeout=30, cwd=tmpdir)
                    if "Parse error" in (r1.stderr + r1.stdout) and "Parse error" not in (r0.stderr + r0.stdout):
                        return "program %d: the fixed program does not parse: %r -> %r" % (idx, text[:120], cur[:200])
                    if r0.returncode == 0 and "Error" not in r0.stderr and "Exception" not in r0.stderr:
                        if r1.stdout != r0.stdout or r1.returncode != r0.returncode:
                            return "program %d: output changed after --fix: %r -> %r (source %r -> %r)" % (idx, r0.stdout[-80:], r1.stdout[-80:], text[:120], cur[:160])
                except subprocess.TimeoutExpired:
                    return "program %d: timeout" % idx
                return None
            with ThreadPoolExecutor(max_workers=8) as ex:
                bad_items = [r for r in ex.map(one, range(len(progs))) if r]
            return {"cmd": "check --fix <%d programs>" % len(progs), "exit": 0, "stdout": "", "stderr": "",
                    "reproduced": bool(bad_items), "why": "; ".join(bad_items[:4])[:1800], "n_inputs": len(progs),
                    "failing_inputs": [progs[int(re.match(r"program (\d+)", b).group(1))] for b in bad_items][:6]}
        elif kind == "definition-positions":
            # C23 bounded stand-in: each source is written to a file as it is (a leading byte order mark included);
            # go-to-definition (`garden reftest-position FILE OFFSET`) is asked at the start of every identifier;
            # every Position printed for that file must lie inside it, on char boundaries, with line/column equal
            # to those of its offsets
            bad_items, failing, n_pos = [], [], 0
            for idx, src_ in enumerate(w["input"]):
                b = src_.encode("utf-8")
                f = os.path.join(tmpdir, "d%d.gdn" % idx)
                with open(f, "wb") as fh:
                    fh.write(b)
                offs = [m.start() for m in re.finditer(rb"[A-Za-z_][A-Za-z0-9_]*", b)]
                for o in offs:
                    try:
                        pr = subprocess.run([binpath, "reftest-position", f, str(o)], capture_output=True, text=True, timeout=30, cwd=tmpdir)
                    except subprocess.TimeoutExpired:
                        bad_items.append("program %d offset %d: timeout" % (idx, o))
                        continue
                    if pr.returncode == 101 or "panicked at" in pr.stderr:
                        bad_items.append("program %d offset %d: panicked: %s" % (idx, o, pr.stderr[-160:]))
                        failing.append(src_)
                        continue
                    for pos in _jsons(pr.stdout):
                        if not (isinstance(pos, dict) and {"start_offset", "end_offset", "line_number", "column"} <= set(pos)):
                            continue
                        if not str(pos.get("path", "")).endswith("d%d.gdn" % idx):
                            continue
                        n_pos += 1
                        so, eo = pos["start_offset"], pos["end_offset"]
                        why = None
                        if not (0 <= so <= eo <= len(b)):
                            why = "offsets %d..%d outside the file (%d bytes)" % (so, eo, len(b))
                        else:
                            for o_ in (so, eo):
                                if o_ < len(b) and (b[o_] & 0xC0) == 0x80:
                                    why = "offset %d is inside a character" % o_
                            exp = []
                            for o_ in (so, eo):
                                ls = b.rfind(b"\n", 0, o_) + 1
                                exp.append((b.count(b"\n", 0, o_), o_ - ls))
                            got = [(pos["line_number"], pos["column"]), (pos.get("end_line_number"), pos.get("end_column"))]
                            if why is None and got != exp:
                                why = "offsets %d..%d are line/column %r but the position says %r" % (so, eo, exp, got)
                            if why is None and not re.fullmatch(rb"[A-Za-z_][A-Za-z0-9_]*", b[so:eo]):
                                why = "offsets %d..%d hold %r, not a name" % (so, eo, b[so:eo][:30])
                        if why:
                            bad_items.append("program %d, definition asked at offset %d: %s" % (idx, o, why))
                            failing.append(src_)
            if n_pos < len(w["input"]) and not bad_items:
                bad_items.append("only %d definition positions reported for %d programs" % (n_pos, len(w["input"])))
            return {"cmd": "reftest-position <%d programs>" % len(w["input"]), "exit": 0, "stdout": "", "stderr": "",
                    "reproduced": bool(bad_items), "why": "; ".join(bad_items[:4])[:1500], "n_inputs": len(w["input"]), "failing_inputs": failing[:3]}
        elif kind == "session-positions":
            # C23 bounded stand-in: each source is evaluated in a JSON session and raises a runtime error
            # at a chosen token; every full Position in the answers (offsets, lines, byte columns) must
            # lie inside that source, on char boundaries, with line/column equal to those of its offsets
            srcs = list(w["input"])
            f = os.path.join(tmpdir, "s.jsonl")
            with open(f, "w", encoding="utf-8") as fh:
                for src_ in srcs:
                    fh.write(json.dumps({"method": "run", "input": src_}) + "\n")
                    fh.write(json.dumps({"method": "run", "input": ":abort"}) + "\n")
            try:
                p = subprocess.run([binpath, "reftest-json-session", f], capture_output=True, text=True, timeout=w.get("timeout", 60), cwd=tmpdir)
            except subprocess.TimeoutExpired:
                return {"cmd": "reftest-json-session", "exit": "timeout", "stdout": "", "stderr": "", "reproduced": True, "why": "timeout"}
            bad_items, failing = [], []
            if p.returncode == 101 or "panicked at" in p.stderr:
                bad_items.append("session panicked: " + p.stderr[-200:])
            answers = [o for o in _jsons(p.stdout) if "evaluate" in o.get("kind", {}) or "run_command" in o.get("kind", {})]
            evals = [o for o in answers if "evaluate" in o.get("kind", {})]
            if len(evals) != len(srcs):
                bad_items.append("%d evaluate answers for %d inputs" % (len(evals), len(srcs)))
            n_pos = 0
            for src_, ans in zip(srcs, evals):
                b = src_.encode("utf-8")
                found = []

                def walk(node):
                    if isinstance(node, dict):
                        if {"start_offset", "end_offset", "line_number", "column"} <= set(node):
                            found.append(node)
                        for v in node.values():
                            walk(v)
                    elif isinstance(node, list):
                        for v in node:
                            walk(v)
                walk(ans)
                for pos in found:
                    if pos.get("path") not in (None, "__user.gdn"):
                        continue
                    n_pos += 1
                    so, eo = pos["start_offset"], pos["end_offset"]
                    why = None
                    if not (0 <= so <= eo <= len(b)):
                        why = "offsets %d..%d outside the text (%d bytes)" % (so, eo, len(b))
                    else:
                        for o_ in (so, eo):
                            if o_ < len(b) and (b[o_] & 0xC0) == 0x80:
                                why = "offset %d is inside a character" % o_
                        exp = []
                        for o_ in (so, eo):
                            ls = b.rfind(b"\n", 0, o_) + 1
                            exp.append((b.count(b"\n", 0, o_), o_ - ls))
                        got = [(pos["line_number"], pos["column"]), (pos.get("end_line_number"), pos.get("end_column"))]
                        if why is None and got != exp:
                            why = "offsets %d..%d are line/column %r but the position says %r" % (so, eo, exp, got)
                    if why:
                        bad_items.append("%r: %s" % (src_[:60], why))
                        failing.append(src_)
            if n_pos < len(srcs) and not bad_items:
                bad_items.append("only %d positions reported for %d inputs (each input should raise an error with a position)" % (n_pos, len(srcs)))
            return {"cmd": "reftest-json-session <%d inputs>" % len(srcs), "exit": p.returncode, "stdout": p.stdout[-600:], "stderr": p.stderr[-300:],
                    "reproduced": bool(bad_items), "why": "; ".join(bad_items[:4])[:1500], "n_inputs": len(srcs), "failing_inputs": failing[:4]}
        elif kind == "format-corpus":
            # C17 bounded stand-in: every program (the listed ones plus the repository's own .gdn files that parse)
            # is formatted; the output must parse without errors to the same syntax tree (`reftest-ast`, which
            # elides positions) and carry the same comments
            import glob
            from concurrent.futures import ThreadPoolExecutor
            progs = [(None, t) for t in w["input"]]
            for pat in w.get("globs", []):
                for fp in sorted(glob.glob(os.path.join(REPO, pat), recursive=True))[:w.get("max_files", 400)]:
                    try:
                        progs.append((os.path.relpath(fp, REPO), open(fp, encoding="utf-8").read().split("// args:")[0]))
                    except Exception:
                        pass

            def comments(t):
                # comment texts, ignoring indentation: a `//` outside a string literal up to the end of the line
                out_, i, n, in_str = [], 0, len(t), False
                while i < n:
                    c = t[i]
                    if in_str:
                        if c == "\\":
                            i += 2
                            continue
                        if c == '"':
                            in_str = False
                    elif c == '"':
                        in_str = True
                    elif t.startswith("//", i):
                        j = t.find("\n", i)
                        j = n if j < 0 else j
                        out_.append(t[i:j].rstrip())
                        i = j
                        continue
                    i += 1
                return out_

            def one(idx):
                name, text = progs[idx]
                f = os.path.join(tmpdir, "f%d.gdn" % idx)
                f2 = os.path.join(tmpdir, "f%d_out.gdn" % idx)
                open(f, "w", encoding="utf-8").write(text)
                label = name or ("listed #%d" % idx)
                try:
                    a1 = subprocess.run([binpath, "reftest-ast", f], capture_output=True, text=True, timeout=30, cwd=tmpdir)
                    if a1.returncode != 0 or "panicked at" in a1.stderr or "Error" in a1.stderr[:200]:
                        return None       # does not parse: outside the property
                    p = subprocess.run([binpath, "format", f], capture_output=True, text=True, timeout=30, cwd=tmpdir)
                    if p.returncode == 101 or "panicked at" in p.stderr:
                        return "%s: format panicked: %s" % (label, p.stderr[-160:])
                    if p.returncode != 0:
                        return None
                    open(f2, "w", encoding="utf-8").write(p.stdout)
                    a2 = subprocess.run([binpath, "reftest-ast", f2], capture_output=True, text=True, timeout=30, cwd=tmpdir)
                    if a2.returncode != 0:
                        return "%s: the formatted text no longer parses: %s" % (label, (a2.stderr or a2.stdout)[-200:])
                    if a1.stdout != a2.stdout:
                        import difflib
                        d = [ln for ln in difflib.unified_diff(a1.stdout.split("\n"), a2.stdout.split("\n"), lineterm="", n=0) if not ln.startswith(("---", "+++", "@@"))][:4]
                        return "%s: the syntax tree changed: %s" % (label, " | ".join(d)[:300])
                    if comments(text) != comments(p.stdout):
                        return "%s: the comments changed: %r vs %r" % (label, comments(text)[:3], comments(p.stdout)[:3])
                except subprocess.TimeoutExpired:
                    return "%s: timeout" % label
                return None
            with ThreadPoolExecutor(max_workers=12) as ex:
                res = list(ex.map(one, range(len(progs))))
            bad_items = [r for r in res if r]
            return {"cmd": "format <%d programs>" % len(progs), "exit": 0, "stdout": "", "stderr": "",
                    "reproduced": bool(bad_items), "why": "; ".join(bad_items[:4])[:1800], "n_inputs": len(progs),
                    "failing_inputs": [progs[i][1][:400] for i, r in enumerate(res) if r][:4]}
        elif kind == "rename-corpus":
            # C19 bounded stand-in: each item renames the variable at `offset` (the first occurrence of `at`) to a
            # fresh name; the renamed program must print what the original printed, and exactly `count`
            # occurrences must have been rewritten
            bad_items, failing = [], []
            items = list(w["input"])
            if w.get("prelude_collisions"):
                # a local defined at the very byte offset at which a prelude definition's name starts (the type
                # checker's definition map also holds definitions of other files), in a function that uses
                # prelude names: only the local's own occurrences may be rewritten
                try:
                    ptxt = open(os.path.join(REPO, "src", "__prelude.gdn"), encoding="utf-8").read()
                except OSError:
                    ptxt = ""
                offs = set()
                for m_ in re.finditer(r"\b(?:fun|method|struct|enum|test)\s+(?:<[^>]*>\s*)?(\w+)", ptxt):
                    offs.add(len(ptxt[:m_.start(1)].encode("utf-8")))
                for m_ in re.finditer(r"^\s+([A-Z]\w*)\b(?=\s*[,(\n])", ptxt, re.M):
                    offs.add(len(ptxt[:m_.start(1)].encode("utf-8")))
                head = "\nfun host(): Int {\n  let "
                body = ("seen = 1\n  let strict = True\n  let no = False\n  let a = Ok(1)\n  let b = Err(2)\n  let c = not(no)\n  let d = dbg(3)\n"
                        "  let e = Some(4)\n  let n = None\n  let u = Unit\n  let l = [1].len()\n  if strict && c { seen + seen } else { seen }\n}\nprintln(string_repr(host()))\n")
                for t_ in sorted(offs)[:w.get("max_collisions", 80)]:
                    pad = t_ - 2 - len(head) - 0
                    if pad < 0:
                        continue
                    items.append({"what": "local defined at byte offset %d, where a prelude definition starts" % t_, "at": "let seen", "delta": 4, "count": 4,
                                  "src": "//" + "x" * pad + head + body})
            for idx, it in enumerate(items):
                src_ = it["src"]
                off = src_.encode("utf-8").find(it["at"].encode("utf-8")) + it.get("delta", 0)
                f = os.path.join(tmpdir, "c%d.gdn" % idx)
                open(f, "w", encoding="utf-8").write(src_)
                try:
                    r0 = subprocess.run([binpath, "run", f], capture_output=True, text=True, timeout=30, cwd=tmpdir)
                    p = subprocess.run([binpath, "reftest-rename", f, str(off), "--new-name", "zz_renamed"], capture_output=True, text=True, timeout=30, cwd=tmpdir)
                    why = None
                    if p.returncode == 101 or "panicked at" in p.stderr:
                        why = "rename panicked: " + p.stderr[-160:]
                    elif p.returncode != 0:
                        why = "rename failed: " + (p.stderr or p.stdout)[-160:]
                    else:
                        new = p.stdout
                        n = len(re.findall(r"\bzz_renamed\b", new))
                        f2 = os.path.join(tmpdir, "c%d_renamed.gdn" % idx)
                        open(f2, "w", encoding="utf-8").write(new)
                        r1 = subprocess.run([binpath, "run", f2], capture_output=True, text=True, timeout=30, cwd=tmpdir)
                        if n != it["count"]:
                            why = "%d occurrences rewritten, %d refer to that variable: %r" % (n, it["count"], new[-200:])
                        elif (r1.stdout, r1.returncode) != (r0.stdout, r0.returncode) or ("Exception" in r1.stdout + r1.stderr) != ("Exception" in r0.stdout + r0.stderr):
                            why = "the renamed program behaves differently: %r vs %r" % ((r0.stdout + r0.stderr)[-120:], (r1.stdout + r1.stderr)[-120:])
                except subprocess.TimeoutExpired:
                    why = "timeout"
                if why:
                    bad_items.append("%s: %s" % (it.get("what", idx), why))
                    failing.append(it)
            return {"cmd": "reftest-rename <%d programs>" % len(items), "exit": 0, "stdout": "", "stderr": "",
                    "reproduced": bool(bad_items) or len(items) < w.get("min_inputs", 0), "why": ("; ".join(bad_items[:3]) if bad_items else "only %d programs" % len(items))[:1600], "n_inputs": len(items), "failing_inputs": failing[:4]}
        elif kind == "session-alive":
            # C09 bounded stand-in: each item is a list of session inputs; the session must answer every one of
            # them (one evaluate / run_command answer per request), must not panic, and must answer the last
            # request `40 + 2` with 42
            bad_items, failing = [], []
            for idx, reqs in enumerate(w["input"]):
                f = os.path.join(tmpdir, "a%d.jsonl" % idx)
                with open(f, "w", encoding="utf-8") as fh:
                    for req in reqs:
                        # a string is the input of a `run` request; a dict is a request sent as it is (eval_up_to, load, ..)
                        fh.write(json.dumps(req if isinstance(req, dict) else {"method": "run", "input": req}) + "\n")
                try:
                    p = subprocess.run([binpath, "reftest-json-session", f], capture_output=True, text=True, timeout=w.get("timeout", 30), cwd=tmpdir)
                except subprocess.TimeoutExpired:
                    bad_items.append("%r: timeout" % (reqs[:3],))
                    failing.append(reqs)
                    continue
                answers = [o for o in _jsons(p.stdout) if any(k in o.get("kind", {}) for k in ("evaluate", "run_command", "malformed_request"))]
                why = None
                if p.returncode == 101 or "panicked at" in p.stderr:
                    m_ = re.search(r"panicked at ([^\n]*)\n([^\n]*)", p.stderr)
                    why = "the session died: %s" % (" ".join(m_.groups()) if m_ else p.stderr[-160:])
                elif len(answers) != len(reqs):
                    why = "%d answers for %d requests" % (len(answers), len(reqs))
                elif not (answers and "evaluate" in answers[-1]["kind"] and answers[-1]["kind"]["evaluate"]["value"].get("Ok") == "42"):
                    why = "the last request was not answered with 42: %s" % json.dumps(answers[-1])[:200]
                if why:
                    bad_items.append("%r: %s" % (reqs, why))
                    failing.append(reqs)
            return {"cmd": "reftest-json-session <%d sequences>" % len(w["input"]), "exit": 0, "stdout": "", "stderr": "",
                    "reproduced": bool(bad_items), "why": "; ".join(bad_items[:3])[:1600], "n_inputs": len(w["input"]), "failing_inputs": failing[:4]}
        elif kind == "resume-corpus":
            # C07 bounded stand-in: each item is a list of session inputs ending in a failing step; after it
            # `:resume` is sent `resumes` times and every answer must carry the same error message and
            # position as the first failure
            bad_items, failing = [], []
            for idx, item in enumerate(w["input"]):
                f = os.path.join(tmpdir, "r%d.jsonl" % idx)
                n_res = item.get("resumes", 2)
                with open(f, "w", encoding="utf-8") as fh:
                    for req in item["session"]:
                        fh.write(json.dumps({"method": "run", "input": req}) + "\n")
                    for _ in range(n_res):
                        fh.write(json.dumps({"method": "run", "input": ":resume"}) + "\n")
                try:
                    p = subprocess.run([binpath, "reftest-json-session", f], capture_output=True, text=True, timeout=w.get("timeout", 30), cwd=tmpdir)
                except subprocess.TimeoutExpired:
                    bad_items.append("%s: timeout" % item.get("what", idx))
                    failing.append(item)
                    continue
                if p.returncode == 101 or "panicked at" in p.stderr:
                    bad_items.append("%s: session panicked: %s" % (item.get("what", idx), p.stderr[-160:]))
                    failing.append(item)
                    continue
                evals = [o["kind"]["evaluate"]["value"] for o in _jsons(p.stdout) if "evaluate" in o.get("kind", {})]
                tail = evals[-(n_res + 1):]
                sig = []
                for v in tail:
                    if "Err" in v and v["Err"]:
                        e = v["Err"][0]
                        pp = e.get("position") or {}
                        sig.append((e.get("message"), pp.get("start_offset"), pp.get("end_offset")))
                    else:
                        sig.append(("no error", str(v)[:80], None))
                if len(tail) != n_res + 1 or sig[0][0] == "no error" or any(x != sig[0] for x in sig[1:]):
                    bad_items.append("%s: the failing step gave %r, the resumes gave %r" % (item.get("what", idx), sig[:1], sig[1:]))
                    failing.append(item)
            return {"cmd": "reftest-json-session <%d sessions>" % len(w["input"]), "exit": 0, "stdout": "", "stderr": "",
                    "reproduced": bool(bad_items), "why": "; ".join(bad_items[:4])[:1600], "n_inputs": len(w["input"]), "failing_inputs": failing[:4]}
        elif kind == "rename":
            f = os.path.join(tmpdir, w.get("filename", "w.gdn"))
            with open(f, "w", encoding="utf-8") as fh:
                fh.write(w["input"])
            cmd = [binpath, "reftest-rename", f, str(w["offset"]), "--new-name", w["new_name"]]
            stdin = None
        elif kind == "run-dir":
            # several files in one directory; run the main one
            for name, text in w["files"].items():
                with open(os.path.join(tmpdir, name), "w", encoding="utf-8") as fh:
                    fh.write(text)
            cmd = [binpath, "run", os.path.join(tmpdir, w["main"])]
            stdin = None
        elif kind == "test-dir":
            # several files in one directory; `garden test <args>` where a file name in args is taken in that directory
            for name, text in w["files"].items():
                with open(os.path.join(tmpdir, name), "w", encoding="utf-8") as fh:
                    fh.write(text)
            cmd = [binpath, "test"] + [os.path.join(tmpdir, a) if a in w["files"] else a for a in w["args"]]
            stdin = None
        elif kind == "lsp":
            # a list of LSP messages replayed through `garden reftest-lsp`; `{tmpdir}` in a message stands for the
            # directory the files of w["extra_files"] are written to (documents that import files on disk)
            for name_, text_ in (w.get("extra_files") or {}).items():
                with open(os.path.join(tmpdir, name_), "w", encoding="utf-8") as fh:
                    fh.write(text_)
            f = os.path.join(tmpdir, "s.jsonl")
            with open(f, "w", encoding="utf-8") as fh:
                for req in w["input"]:
                    fh.write(json.dumps(req).replace("{tmpdir}", tmpdir) + "\n")
            cmd = [binpath, "reftest-lsp", f]
            stdin = None
        elif kind == "lsp-stdio":
            # the real server loop: `garden lsp` fed Content-Length framed messages on stdin; an input item is a JSON
            # message, or {"raw": text} for a body sent as it is, or {"frame": text} for bytes sent without a header.
            # The framed answers are re-printed one JSON value per line, so the usual oracles apply.
            for name_, text_ in (w.get("extra_files") or {}).items():
                with open(os.path.join(tmpdir, name_), "w", encoding="utf-8") as fh:
                    fh.write(text_)
            data = b""
            for it in w["input"]:
                if isinstance(it, dict) and set(it) == {"frame"}:
                    data += it["frame"].encode("utf-8")
                    continue
                body = (it["raw"] if isinstance(it, dict) and set(it) == {"raw"} else json.dumps(it).replace("{tmpdir}", tmpdir)).encode("utf-8")
                data += b"Content-Length: %d\r\n\r\n" % len(body) + body
            try:
                p = subprocess.run([binpath, "lsp"], input=data, capture_output=True, timeout=w.get("timeout", 60), cwd=tmpdir)
                rc, raw, err = p.returncode, p.stdout, p.stderr.decode("utf-8", "replace")
            except subprocess.TimeoutExpired as e:
                rc, raw, err = "timeout", e.stdout or b"", ""
            outs, pos = [], 0
            while True:
                m = re.compile(rb"Content-Length: (\d+)\r\n(?:[^\r\n]+\r\n)*\r\n").search(raw, pos)
                if not m:
                    break
                n_ = int(m.group(1))
                outs.append(raw[m.end():m.end() + n_].decode("utf-8", "replace"))
                pos = m.end() + n_
            out = "\n".join(outs) + "\n"
            cmd = None
            full_out = out
            obs = {"cmd": "lsp (stdin, %d framed messages)" % len(w["input"]), "exit": rc, "stdout": out[-1500:], "stderr": err[-1500:]}
            exp = w.get("expect", {})
            why = []
            if rc == 101 or "panicked at" in err:
                why.append("process panicked")
            if rc == "timeout":
                why.append("timeout")
            if "exit" in exp and rc != exp["exit"]:
                why.append("exit status %s, expected %s" % (rc, exp["exit"]))
            if "py" in exp:
                r = eval(exp["py"], {"rc": rc, "out": out, "err": err, "json": json, "re": re, "jsons": _jsons, "full_out": full_out})
                if r:
                    why.append(str(r))
            obs["reproduced"] = bool(why)
            obs["why"] = "; ".join(why)
            return obs
        elif kind == "json-session":
            f = os.path.join(tmpdir, "s.jsonl")
            with open(f, "w", encoding="utf-8") as fh:
                for req in w["input"]:
                    fh.write(json.dumps({"method": "run", "input": req}) + "\n")
            cmd = [binpath, "reftest-json-session", f]
            stdin = None
        else:
            return {"error": "unknown witness kind %s" % kind, "reproduced": False}
        try:
            if w.get("stdin_open"):
                # standard input is a pipe that stays open and never delivers anything: a program that reads it blocks
                fo, fe = open(os.path.join(tmpdir, "so.txt"), "w+"), open(os.path.join(tmpdir, "se.txt"), "w+")
                pp = subprocess.Popen(cmd, stdin=subprocess.PIPE, stdout=fo, stderr=fe, cwd=tmpdir)
                try:
                    pp.wait(timeout=w.get("timeout", 20))
                    timed_out = False
                except subprocess.TimeoutExpired:
                    pp.kill()
                    pp.wait()
                    timed_out = True
                try:
                    pp.stdin.close()
                except Exception:
                    pass
                fo.seek(0), fe.seek(0)

                class _P:
                    pass
                p = _P()
                p.returncode, p.stdout, p.stderr = ("timeout" if timed_out else pp.returncode), fo.read(), fe.read()
            else:
                p = subprocess.run(cmd, capture_output=True, text=True, timeout=w.get("timeout", 20),
                                   input=w.get("stdin", stdin), cwd=tmpdir)
            rc, out, err = p.returncode, p.stdout, p.stderr
        except subprocess.TimeoutExpired as e:
            rc, out, err = "timeout", (e.stdout or b"").decode("utf-8", "replace") if isinstance(e.stdout, bytes) else (e.stdout or ""), ""
    finally:
        subprocess.run(["rm", "-rf", tmpdir])
    full_out = out
    obs = {"cmd": " ".join(cmd[1:]) if cmd else "", "exit": rc, "stdout": out[-1500:], "stderr": err[-1500:]}
    exp = w.get("expect", {})
    bad = False
    why = []
    if rc == 101 or "panicked at" in err or "panicked at" in out:
        if not exp.get("panic_ok"):
            bad = True
            why.append("process panicked")
    if rc == "timeout" and not exp.get("timeout_ok"):
        bad = True
        why.append("timeout")
    if "stdout" in exp and out.strip() != exp["stdout"].strip():
        bad = True
        why.append("stdout %r != expected %r" % (out.strip()[-200:], exp["stdout"].strip()[-200:]))
    if "stdout_contains" in exp and exp["stdout_contains"] not in out:
        bad = True
        why.append("stdout lacks %r" % exp["stdout_contains"])
    if "stdout_not_contains" in exp and exp["stdout_not_contains"] in out:
        bad = True
        why.append("stdout contains %r" % exp["stdout_not_contains"])
    if "stderr_contains" in exp and exp["stderr_contains"] not in (err + out):
        bad = True
        why.append("output lacks %r" % exp["stderr_contains"])
    if "stderr_not_contains" in exp and exp["stderr_not_contains"] in (err + out):
        bad = True
        why.append("output contains %r" % exp["stderr_not_contains"])
    if "py" in exp:
        # custom oracle: python expression over rc,out,err returning reason string or ''
        r = eval(exp["py"], {"rc": rc, "out": out, "err": err, "json": json, "re": re, "jsons": _jsons, "full_out": full_out})
        if r:
            bad = True
            why.append(str(r))
    obs["reproduced"] = bad
    obs["why"] = "; ".join(why)
    return obs


def make_replay(root, prop, f, results, tier):
    """Write replays/<prop>-<obligation>.json; try the unit's witnesses on the real binary."""
    os.makedirs(os.path.join(root, "replays"), exist_ok=True)
    safe = re.sub(r"[^A-Za-z0-9_.#@\[\]-]+", "_", f["obligation"])[:120]
    path = os.path.join(root, "replays", "%s-%s.json" % (prop, safe))
    doc = {"property": prop, "obligation": f["obligation"], "function": f["fn"],
           "unit": f.get("unit"), "repo_location": f.get("repo"),
           "verifier_message": f["message"], "verifier_output": f["rendered"],
           "skeleton_changed": f.get("skeleton_changed", False),
           "witnesses_tried": [], "reproduced": False, "at": time.strftime("%Y-%m-%dT%H:%M:%SZ", time.gmtime())}
    if f.get("counterexample"):
        doc["counterexample"] = f["counterexample"]
    wits = []
    for u in results:
        for w in getattr(u.mod, "WITNESSES", []):
            if prop in w.get("props", [prop]) and (re.search(w["match"], f["obligation"]) or
                                                     (f.get("match_all_witnesses") and getattr(u, "unit", None) == f.get("unit"))):
                wits.append(w)
        gw = getattr(u.mod, "witnesses_for", None)
        if gw:
            wits += gw(prop, f) or []
    reproduced = False
    if wits:
        b = build_binary()
        if b is None:
            doc["build_error"] = _built.get("log", "")
        else:
            for w in wits:
                obs = run_witness(b, w)
                doc["witnesses_tried"].append({"witness": {k: w[k] for k in w if k != "props"}, "observed": obs})
                if obs.get("reproduced"):
                    reproduced = True
                    doc["reproduced"] = True
                    doc["failing_input"] = obs.get("failing_inputs") or w["input"]
                    doc["replay_cmd"] = "garden " + obs["cmd"]
                    break
    with open(path, "w") as fh:
        json.dump(doc, fh, indent=1)
        fh.write("\n")
    return path, reproduced


def replay_file(path):
    doc = json.load(open(path))
    b = build_binary()
    if b is None:
        print("build failed")
        return 2
    rc = 0
    for t in doc.get("witnesses_tried", []):
        obs = run_witness(b, t["witness"])
        print(json.dumps(obs, indent=1))
        if obs.get("reproduced"):
            rc = 1
    if rc:
        print("VIOLATION property=%s replay=%s" % (doc["property"], path))
    return rc
