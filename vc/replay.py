"""Replay of a violated obligation against the real binary built from /repo's tree (§2.6)."""
import json
import os
import re
import subprocess
import tempfile
import time

REPO = os.environ.get("VERIF_REPO", "/repo")
_built = {}


def build_binary():
    """cargo build --offline on the current working tree; returns path or None."""
    if "bin" in _built:
        return _built["bin"]
    env = dict(os.environ)
    env["CARGO_NET_OFFLINE"] = "true"
    tgt = os.environ.get("VERIF_TARGET_DIR", os.path.join(REPO, "target"))
    env["CARGO_TARGET_DIR"] = tgt
    p = subprocess.run(["cargo", "build", "--offline", "--quiet"], cwd=REPO, env=env,
                       capture_output=True, text=True)
    b = os.path.join(tgt, "debug", "garden")
    _built["bin"] = b if (p.returncode == 0 and os.path.exists(b)) else None
    _built["log"] = p.stderr[-2000:]
    return _built["bin"]


def run_witness(binpath, w):
    """Run one witness.  Returns dict(observed..., reproduced: bool)."""
    kind = w["kind"]
    tmpdir = tempfile.mkdtemp(prefix="garden_replay_", dir="/var/tmp")
    try:
        if kind == "run":          # garden run -c <program>
            cmd = [binpath, "run", "-c", w["input"]]
            stdin = None
        elif kind in ("check", "check-json", "check-fix", "format", "run-file", "ast", "test",
                      "sandboxed-test", "playground"):
            f = os.path.join(tmpdir, w.get("filename", "w.gdn"))
            with open(f, "w", encoding="utf-8") as fh:
                fh.write(w["input"])
            stdin = None
            cmd = {"check": [binpath, "check", f],
                   "check-json": [binpath, "check", "--json", f],
                   "check-fix": [binpath, "check", "--fix", "--stdout", f],
                   "format": [binpath, "format", f],
                   "run-file": [binpath, "run", f],
                   "ast": [binpath, "reftest-ast", f],
                   "test": [binpath, "test", f],
                   "playground": [binpath, "playground-run", f],
                   "sandboxed-test": [binpath, "sandboxed-test", f] + [str(x) for x in w.get("args", [])],
                   }[kind]
        elif kind == "json-session":
            f = os.path.join(tmpdir, "s.jsonl")
            with open(f, "w", encoding="utf-8") as fh:
                for req in w["input"]:
                    fh.write(json.dumps({"method": "run", "input": req}) + "\n")
            cmd = [binpath, "reftest-json-session", f]
            stdin = None
        else:
            return {"error": "unknown witness kind %s" % kind, "reproduced": False}
        try:
            p = subprocess.run(cmd, capture_output=True, text=True, timeout=w.get("timeout", 20),
                               input=w.get("stdin", stdin), cwd=tmpdir)
            rc, out, err = p.returncode, p.stdout, p.stderr
        except subprocess.TimeoutExpired as e:
            rc, out, err = "timeout", (e.stdout or b"").decode("utf-8", "replace") if isinstance(e.stdout, bytes) else (e.stdout or ""), ""
    finally:
        subprocess.run(["rm", "-rf", tmpdir])
    obs = {"cmd": " ".join(cmd[1:]) if cmd else "", "exit": rc, "stdout": out[-1500:], "stderr": err[-1500:]}
    exp = w.get("expect", {})
    bad = False
    why = []
    if rc == 101 or "panicked at" in err or "panicked at" in out:
        if not exp.get("panic_ok"):
            bad = True
            why.append("process panicked")
    if rc == "timeout" and not exp.get("timeout_ok"):
        bad = True
        why.append("timeout")
    if "stdout" in exp and out.strip() != exp["stdout"].strip():
        bad = True
        why.append("stdout %r != expected %r" % (out.strip()[-200:], exp["stdout"].strip()[-200:]))
    if "stdout_contains" in exp and exp["stdout_contains"] not in out:
        bad = True
        why.append("stdout lacks %r" % exp["stdout_contains"])
    if "stdout_not_contains" in exp and exp["stdout_not_contains"] in out:
        bad = True
        why.append("stdout contains %r" % exp["stdout_not_contains"])
    if "stderr_contains" in exp and exp["stderr_contains"] not in (err + out):
        bad = True
        why.append("output lacks %r" % exp["stderr_contains"])
    if "stderr_not_contains" in exp and exp["stderr_not_contains"] in (err + out):
        bad = True
        why.append("output contains %r" % exp["stderr_not_contains"])
    if "py" in exp:
        # custom oracle: python expression over rc,out,err returning reason string or ''
        r = eval(exp["py"], {"rc": rc, "out": out, "err": err, "json": json, "re": re})
        if r:
            bad = True
            why.append(str(r))
    obs["reproduced"] = bad
    obs["why"] = "; ".join(why)
    return obs


def make_replay(root, prop, f, results, tier):
    """Write replays/<prop>-<obligation>.json; try the unit's witnesses on the real binary."""
    os.makedirs(os.path.join(root, "replays"), exist_ok=True)
    safe = re.sub(r"[^A-Za-z0-9_.#@\[\]-]+", "_", f["obligation"])[:120]
    path = os.path.join(root, "replays", "%s-%s.json" % (prop, safe))
    doc = {"property": prop, "obligation": f["obligation"], "function": f["fn"],
           "unit": f.get("unit"), "repo_location": f.get("repo"),
           "verifier_message": f["message"], "verifier_output": f["rendered"],
           "skeleton_changed": f.get("skeleton_changed", False),
           "witnesses_tried": [], "reproduced": False, "at": time.strftime("%Y-%m-%dT%H:%M:%SZ", time.gmtime())}
    if f.get("counterexample"):
        doc["counterexample"] = f["counterexample"]
    wits = []
    for u in results:
        for w in getattr(u.mod, "WITNESSES", []):
            if prop in w.get("props", [prop]) and (re.search(w["match"], f["obligation"]) or
                                                     (f.get("match_all_witnesses") and getattr(u, "unit", None) == f.get("unit"))):
                wits.append(w)
        gw = getattr(u.mod, "witnesses_for", None)
        if gw:
            wits += gw(prop, f) or []
    reproduced = False
    if wits:
        b = build_binary()
        if b is None:
            doc["build_error"] = _built.get("log", "")
        else:
            for w in wits:
                obs = run_witness(b, w)
                doc["witnesses_tried"].append({"witness": {k: w[k] for k in w if k != "props"}, "observed": obs})
                if obs.get("reproduced"):
                    reproduced = True
                    doc["reproduced"] = True
                    doc["failing_input"] = w["input"]
                    doc["replay_cmd"] = "garden " + obs["cmd"]
                    break
    with open(path, "w") as fh:
        json.dump(doc, fh, indent=1)
        fh.write("\n")
    return path, reproduced


def replay_file(path):
    doc = json.load(open(path))
    b = build_binary()
    if b is None:
        print("build failed")
        return 2
    rc = 0
    for t in doc.get("witnesses_tried", []):
        obs = run_witness(b, t["witness"])
        print(json.dumps(obs, indent=1))
        if obs.get("reproduced"):
            rc = 1
    if rc:
        print("VIOLATION property=%s replay=%s" % (doc["property"], path))
    return rc
