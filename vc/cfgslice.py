"""Configuration slice (unit `sandboxcfg`, C24/C25): of a function that builds an `Env` and then
evaluates code with it, keep, in source order,
  * the control structure (through slicer.Slicer),
  * every creation / copy / assignment of an Env-valued variable (`let mut env = Env::new(..)`,
    `let snap = env.clone()`, `env = snap.clone()`),
  * every assignment to `X.tick_limit`, `X.stack_limit`, `X.enforce_sandbox` of such a variable,
  * every call that evaluates Garden code with `&mut X` (the EVAL_FNS list),
and drop everything else (conditions become nondeterministic).  The slice over-approximates the
paths of the function, so "every evaluation runs with the sandbox flag and both limits set" on the
slice implies it for the function, PROVIDED nothing in the dropped text changes those three fields
(they are assigned nowhere else in the crate: checked by the unit with a grep) and the other callees
that receive `&mut X` leave them alone (assumption, listed)."""
import re

from slicer import Slicer

EVAL_FNS = ("eval_tests", "eval_tests_until_error", "eval_toplevel_items", "eval_toplevel_exprs",
            "eval_toplevel_exprs_then_stop", "eval_toplevel_call", "eval_toplevel_method_call", "eval_up_to", "eval")
FIELDS = {"tick_limit": "ticks", "stack_limit": "stack", "enforce_sandbox": "sandbox"}


class CfgSlicer(Slicer):
    def __init__(self, src):
        Slicer.__init__(self, src, r"$^")
        self.vars = set()          # Env-valued variables seen so far
        self.n_runs = 0
        self.n_sets = 0
        self.ret = "return;"
        self.loop_may_exit = True

    def _ops(self, a, b, indent):
        """emit the tracked operations found in tokens [a,b), in source order"""
        if a >= b:
            return
        base = self.toks[a].start
        seg = self.src.text[base:self.toks[b - 1].end]
        names = "|".join(sorted(self.vars)) or "$^"
        rx = re.compile(
            r"\b(?P<fv>%s)\s*\.\s*(?P<field>tick_limit|stack_limit|enforce_sandbox)\s*=(?!=)\s*(?P<val>[^;]*)"
            r"|\b(?P<av>%s)\s*=(?!=)\s*(?P<src>\w+)\s*(?:\.clone\(\))?\s*(?=;|$)"
            r"|\b(?P<fn>%s)\s*\((?P<args>[^;]*?&mut\s+(?P<rv>%s)\b)" % (names, names, "|".join(EVAL_FNS), names))
        for m in rx.finditer(seg):
            ln = self.src.line_of(base + m.start())
            if m.group("fv"):
                val = m.group("val").strip()
                on = "true" if (val.startswith("Some") or val == "true") else ("false" if val in ("None", "false") else "nondet()")
                self.out.append(("%s%s.%s = %s;" % (indent, m.group("fv"), FIELDS[m.group("field")], on), ln))
                self.n_sets += 1
            elif m.group("av"):
                if m.group("src") in self.vars:
                    self.out.append(("%s%s = %s;" % (indent, m.group("av"), m.group("src")), ln))
                else:
                    self.out.append(("%s%s = cfg_unknown();" % (indent, m.group("av")), ln))
            elif m.group("fn"):
                self.out.append(("%srun_sandboxed(%s, \"%s\");" % (indent, m.group("rv"), m.group("fn")), ln))
                self.n_runs += 1

    def effects_in(self, a, b, indent):
        self._ops(a, b, indent)

    def let_stmt(self, k, b, indent):
        e = self.find0(k, b, lambda u: u.text == ";")
        e = b if e is None else e
        text = self.text(k, e)
        m = re.match(r"let\s+(mut\s+)?(\w+)\s*(?::[^=]*)?=\s*(.*)$", text, re.S)
        if m:
            name, rhs = m.group(2), m.group(3).strip()
            if re.match(r"Env::new\s*\(", rhs):
                self.vars.add(name)
                self.emit("%slet mut %s = cfg_new();" % (indent, name), k)
                return e + 1
            m2 = re.match(r"(\w+)\s*\.clone\(\)$", rhs)
            if m2 and m2.group(1) in self.vars:
                self.vars.add(name)
                self.emit("%slet mut %s = %s;" % (indent, name, m2.group(1)), k)
                return e + 1
        return Slicer.let_stmt(self, k, b, indent)
