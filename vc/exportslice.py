"""Export slice (unit `exports`, C34): of eval.rs `load_toplevel_items_`, the `match &item { .. }` that loads one
top-level item.  Kept: the control structure, which arm handles which kind of item (`ToplevelItem::X` patterns become
a match on `kind`), the match on the definition's visibility (`Visibility::X` patterns become a match on `vis`), and
every touch of a namespace's `exported_syms` (insert / remove / anything else).  Everything else is dropped (other
conditions become nondeterministic).  `continue` / `break` that leave the slice end it."""
import re

from slicer import Slicer

EXPORT_RX = r"\bexported_syms\b\s*(?:\.\s*(?P<op>insert|remove)\s*\()?"
LOOPS = ("while", "for", "loop")


class ExportSlicer(Slicer):
    def __init__(self, src, item_enum="ToplevelItem", vis_enum="Visibility"):
        Slicer.__init__(self, src, EXPORT_RX, flag_rx=r"\bno_such_flag_zz\b")
        self.item_enum, self.vis_enum = item_enum, vis_enum
        self.ret = "return e;"
        self.depth = 0
        self.n_kind_matches = 0
        self.n_vis_matches = 0
        self.kinds_seen = set()
        self.vis_seen = set()

    def render_effect(self, m):
        op = m.group("op")
        if op == "insert":
            return "e = export_insert(e);"
        if op == "remove":
            return "e = export_remove(e);"
        return "e = export_other(e);"

    def emit(self, s, k):
        if self.depth == 0 and s.strip() in ("continue;", "break;"):
            s = s[:len(s) - len(s.lstrip())] + "return e;"
        Slicer.emit(self, s, k)

    def control(self, k, b, indent):
        if self.toks[k].text in LOOPS:
            self.depth += 1
            try:
                return Slicer.control(self, k, b, indent)
            finally:
                self.depth -= 1
        return Slicer.control(self, k, b, indent)

    def _variants(self, pat, enum):
        """variant names if every alternative of the pattern is `&?Enum::Variant..` (no guard); else None"""
        if re.search(r"\bif\b", pat):
            return None
        names = []
        depth = 0
        cur = ""
        alts = []
        for ch in pat:
            if ch in "([{":
                depth += 1
            elif ch in ")]}":
                depth -= 1
            if ch == "|" and depth == 0:
                alts.append(cur)
                cur = ""
            else:
                cur += ch
        alts.append(cur)
        for a in alts:
            m = re.match(r"\s*&?\s*%s\s*::\s*(\w+)\b" % re.escape(enum), a)
            if not m:
                return None
            names.append(m.group(1))
        return names

    def emit_arms(self, arms, k, indent):
        for (enum, var, ty, seen, counter) in ((self.item_enum, "kind", "ItemKind", self.kinds_seen, "n_kind_matches"),
                                               (self.vis_enum, "vis", "Vis", self.vis_seen, "n_vis_matches")):
            pats = [self.text(p, arrow).strip() for (_k, _a, _b, arrow, p) in arms]
            vs = [self._variants(p, enum) if p != "_" else "_" for p in pats]
            if arms and all(v is not None for v in vs) and any(v != "_" for v in vs):
                setattr(self, counter, getattr(self, counter) + 1)
                self.emit("%smatch %s {" % (indent, var), k)
                for (kind_, a2, b2, arrow, _p), v in zip(arms, vs):
                    if v == "_":
                        self.emit("%s    _ => {" % indent, arrow)
                    else:
                        seen.update(v)
                        self.emit("%s    %s => {" % (indent, " | ".join("%s::%s" % (ty, n) for n in v)), arrow)
                    self.block(a2, b2, indent + "        ")
                    self.emit("%s    }" % indent, b2 - 1 if b2 > 0 else arrow)
                self.emit("%s}" % indent, k)
                return
        Slicer.emit_arms(self, arms, k, indent)
