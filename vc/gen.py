"""Generate one Verus file for a unit: prelude + extracted items + spliced contracts.

Every output line carries a tag so that a verifier diagnostic (which is a span in the
generated file) can be reported under a stable obligation id (DESIGN §2.4).
"""
import os
import re

from extract import Source, ExtractError, tokenize, code_tokens, match_close, skeleton_hash
import rewrite as rw

REPO = os.environ.get("VERIF_REPO", "/repo")


class Clause:
    def __init__(self, name, text, props=None):
        self.name, self.text, self.props = name, text, props


def _clauses(lst):
    out = []
    for c in lst or []:
        if isinstance(c, Clause):
            out.append(c)
        elif isinstance(c, (tuple, list)):
            out.append(Clause(*c))
        else:
            raise TypeError(c)
    return out


class Contract:
    """requires/ensures/loop invariants/proof hints for one extracted function."""

    def __init__(self, requires=None, ensures=None, loops=None, hints=None, ret="r",
                 decreases=None, props=None, attrs=None, canary=True, opens=None,
                 safety_props=None, body_prelude=None, optional_loops=None):
        self.requires = _clauses(requires)
        self.ensures = _clauses(ensures)
        # loops: {ordinal(1-based): dict(invariant=[clauses], decreases=str, attrs=[str], ensures=[clauses])}
        self.loops = loops or {}
        # hints: list of (anchor_text, position 'before'|'after', proof_text, nth)
        self.hints = hints or []
        self.ret = ret
        self.decreases = decreases
        self.props = set(props or [])
        self.attrs = attrs or []
        self.canary = canary
        # ghost/proof text inserted right after the body's opening brace (and, per loop,
        # loops[k]["body_prelude"] right after the loop body's opening brace)
        self.body_prelude = body_prelude
        # spec template for every loop that has no entry in `loops` and is an index loop produced
        # by a rewrite rule: `{I}` is replaced by that loop's index variable (`__iN`)
        self.optional_loops = optional_loops
        # properties the function's panic-freedom obligations belong to (default: props)
        self.safety_props = set(safety_props) if safety_props is not None else None


class Tag:
    __slots__ = ("kind", "fn", "clause", "repo_file", "repo_line", "props")

    def __init__(self, kind, fn=None, clause=None, repo_file=None, repo_line=None, props=None):
        self.kind, self.fn, self.clause = kind, fn, clause
        self.repo_file, self.repo_line, self.props = repo_file, repo_line, props


class UnitFile:
    def __init__(self, unit_name):
        self.unit = unit_name
        self.lines = []      # text
        self.tags = []       # Tag per line
        self.items = []      # dicts describing extracted items
        self.rules_used = {}  # rule id -> count
        self.clauses = []    # (obligation id, props, text)
        self.fn_props = {}   # generated fn name -> props
        self.canaries = []   # names of canary fns
        self.skeletons = {}  # fn name -> skeleton hash
        self.safety_props = {}  # fn name -> props of its panic-freedom obligations
        self.unspecified_loops = {}  # fn name -> number of loops the contract has no spec for
        self._sources = {}
        self.errors = []

    # ------------------------------------------------------------------
    def source(self, rel):
        if rel not in self._sources:
            p = os.path.join(REPO, rel)
            if not os.path.exists(p):
                raise ExtractError("file %s missing" % rel)
            self._sources[rel] = Source(p)
        return self._sources[rel]

    def emit(self, text, tag):
        for ln in text.split("\n"):
            self.lines.append(ln)
            self.tags.append(tag)

    def raw(self, text, kind="glue", fn=None, props=None):
        """Hand-written Verus text (prelude/specs/glue).  proof fns inside are tracked
        by name so a failing lemma is reported under its own name."""
        cur = fn
        for ln in text.split("\n"):
            m = re.match(r"\s*(pub\s+)?(broadcast\s+)?(proof|spec|exec)?\s*fn\s+(\w+)", ln)
            if m and kind in ("spec", "prelude"):
                cur = m.group(4)
            self.lines.append(ln)
            self.tags.append(Tag(kind, fn=cur, props=props))

    # ------------------------------------------------------------------
    def apply_rules(self, text, rules):
        for r in rules:
            if isinstance(r, str):
                fn = rw.RULES[r]
                rid = r
            else:
                fn, rid = r, getattr(r, "rule_id", "local")
            text, n = fn(text)
            if n:
                self.rules_used[rid] = self.rules_used.get(rid, 0) + n
        return text

    def add_type(self, rel, name, rules=(), subst=()):
        src = self.source(rel)
        it = src.find_type(name)
        self._emit_item(it, rel, name, None, rules, subst, kind="type")

    def add_fn(self, rel, name, impl=None, contract=None, rules=(), subst=(), wrap_impl=None,
               rename=None, nth=0, external_body=False):
        src = self.source(rel)
        it = src.find_fn(name, impl=impl, nth=nth)
        gname = rename or name
        qual = (impl + "::" if impl else "") + name
        self._emit_item(it, rel, gname, contract, rules, subst, kind="fn",
                        wrap_impl=wrap_impl if wrap_impl is not None else impl, qual=qual, orig=name)

    def add_block_fn(self, rel, within, pattern, sig, contract=None, rules=(), subst=(),
                     impl=None, nth=0, upto=None, name=None, prefix="", suffix=""):
        """Anchored block wrapped into a generated function: `sig { prefix BLOCK suffix }`.
        The wrapper signature is generated; the block text is not touched."""
        src = self.source(rel)
        host = src.find_fn(within, impl=impl)
        blk = src.find_block(host, pattern, nth=nth, upto=upto)
        gname = name or re.search(r"fn\s+(\w+)", sig).group(1)
        self._emit_item(blk, rel, gname, contract, rules, subst, kind="block",
                        sig=sig, prefix=prefix, suffix=suffix,
                        qual="%s[%s]" % (within, pattern))

    def add_range_fn(self, rel, within, start_pattern, end_pattern, sig, contract=None, rules=(), subst=(),
                     impl=None, nth=0, name=None, prefix="", suffix="", exclusive=False):
        """A statement range (extract.find_range) wrapped into a generated function."""
        src = self.source(rel)
        host = src.find_fn(within, impl=impl)
        blk = src.find_range(host, start_pattern, end_pattern, nth=nth, exclusive=exclusive)
        gname = name or re.search(r"fn\s+(\w+)", sig).group(1)
        self._emit_item(blk, rel, gname, contract, rules, subst, kind="block",
                        sig=sig, prefix=prefix, suffix=suffix,
                        qual="%s[%s .. %s]" % (within, start_pattern, end_pattern))

    def add_item_fn(self, rel, item, gname, sig, contract=None, rules=(), subst=(), prefix="",
                    suffix="", qual=None):
        """Like add_block_fn, for a block the unit located itself (an extract.Item)."""
        self._emit_item(item, rel, gname, contract, rules, subst, kind="block", sig=sig,
                        prefix=prefix, suffix=suffix, qual=qual or item.name)

    # ------------------------------------------------------------------
    def _emit_item(self, it, rel, gname, contract, rules, subst, kind, wrap_impl=None,
                   qual=None, sig=None, prefix="", suffix="", orig=None):
        rw.reset_counter()
        # line-aligned text with doc comments / dropped attributes blanked
        kept = dict(it.lines())
        raw_lines = it.text.split("\n")
        text = "\n".join(raw_lines[k] if (it.line0 + k) in kept else ""
                         for k in range(len(raw_lines)))
        text, nvis = rw.sub(r"\bpub\((?:crate|super)\)", "pub", text)
        if nvis:
            self.rules_used["R0"] = self.rules_used.get("R0", 0) + nvis
        text = self.apply_rules(text, rules)
        for (a, b) in subst:
            text2, n = rw.sub(a, b, text)
            if n:
                self.rules_used["local:" + a] = self.rules_used.get("local:" + a, 0) + n
            text = text2
        props = contract.props if contract else set()
        self.items.append({"name": qual or gname, "generated_as": gname, "kind": kind,
                           "where": it.where, "sha256_16": it.sha(),
                           "skeleton": skeleton_hash(it.text)})
        self.skeletons[gname] = skeleton_hash(it.text)
        if kind == "type":
            # field-less enums keep their derived PartialEq/Eq/Clone/Copy (plus Verus' `Structural`,
            # which gives exec `==` its meaning): derived equality of a C-like enum is variant equality
            # attributes precede the item text: look at the lines just above it
            above = it.src.text[max(0, it.start - 600):it.start]
            above = above[above.rfind("\n\n") + 1:] if "\n\n" in above else above
            mder = None
            for mm_ in re.finditer(r"#\[derive\(([^)]*)\)\]", above):
                mder = mm_
            body0 = it.text[it.text.find("{") + 1:it.text.rfind("}")] if "{" in it.text else ""
            body0 = re.sub(r"//[^\n]*", "", body0)
            if (mder and re.search(r"\benum\b", it.text.split("{")[0]) and "(" not in body0 and "{" not in body0
                    and "PartialEq" in mder.group(1) and "Eq" in mder.group(1)):
                keep = [d.strip() for d in mder.group(1).split(",") if d.strip() in ("PartialEq", "Eq", "Clone", "Copy")]
                self.raw("#[derive(%s, Structural)]" % ", ".join(keep), fn=gname)
                self.rules_used["R0d"] = self.rules_used.get("R0d", 0) + 1
            if re.search(r"\bstruct\b", text.split("{")[0].split("(")[0]):
                # R0: private named fields -> pub (visibility has no run-time meaning)
                text, nf = rw.sub(r"(?m)^(\s+)(?!pub\b)([a-z_][A-Za-z0-9_]*\s*:(?!:))", r"\1pub \2", text)
                text, nt = rw.sub(r"^((?:pub\s+)?struct\s+\w+(?:<[^>]*>)?\s*\()(?!pub\b)", r"\1pub ", text)
                text, nv = rw.sub(r"^struct\b", "pub struct", text)
                if nf + nt + nv:
                    self.rules_used["R0"] = self.rules_used.get("R0", 0) + nf + nt + nv
            self.emit(text, Tag("repo", fn=gname, repo_file=rel, repo_line=it.line0))
            self._retag_repo(len(text.split("\n")), rel, it.line0, gname, props)
            return
        self.fn_props[gname] = props
        if contract is not None and contract.safety_props is not None:
            self.safety_props[gname] = contract.safety_props
        if kind == "block":
            head = sig
            body_text = "{\n" + prefix + text + suffix + "\n}"
            body_line0 = it.line0 - 1
        else:
            # split signature / body at the body's opening brace
            toks = code_tokens(tokenize(text))
            depth, j = 0, 0
            for j, u in enumerate(toks):
                if u.kind == "punct":
                    if u.text in "([":
                        depth += 1
                    elif u.text in ")]":
                        depth -= 1
                    elif u.text == "{" and depth == 0:
                        break
            cut = toks[j].start
            head, body_text = text[:cut].rstrip(), text[cut:]
            body_line0 = it.line0 + text[:cut].count("\n")
        if orig and orig != gname:
            head = re.sub(r"\bfn\s+%s\b" % re.escape(orig), "fn " + gname, head, count=1)
        if contract is not None:
            head = rw.named_ret(head, contract.ret)
        if wrap_impl:
            self.raw("impl %s {" % wrap_impl_header(wrap_impl), fn=gname, props=props)
        for a in (contract.attrs if contract else []):
            self.raw(a, fn=gname, props=props)
        if contract is not None and kind != "type":
            _t = code_tokens(tokenize(text if kind == "block" else body_text))
            _n = sum(1 for t in _t if t.kind == "ident" and t.text in ("while", "loop", "for"))
            if _n > len(contract.loops) and "#[verifier::exec_allows_no_decreases_clause]" not in contract.attrs:
                self.raw("#[verifier::exec_allows_no_decreases_clause]", fn=gname, props=props)
        # signature lines
        n_head = head.count("\n") + 1
        self.emit(head, None)
        self._retag_repo(n_head, rel, it.line0, gname, props)
        if contract is not None:
            self._emit_spec_clauses(gname, contract, props)
            body_text = self._splice_body(gname, body_text, contract, props)
        start = len(self.lines)
        self._emit_body(body_text, rel, body_line0, gname, props)
        if wrap_impl:
            self.raw("}", fn=gname, props=props)
        if contract is not None and contract.canary and contract.requires:
            self._emit_canary(gname, head, contract, wrap_impl, props)

    def _retag_repo(self, n, rel, line0, gname, props):
        base = len(self.lines) - n
        for k in range(n):
            self.tags[base + k] = Tag("repo", fn=gname, repo_file=rel, repo_line=line0 + k,
                                      props=props)

    def _emit_spec_clauses(self, gname, c, props):
        def block(kw, clauses, kind):
            if not clauses:
                return
            self.raw("    " + kw, fn=gname, props=props)
            for cl in clauses:
                oid = "%s.%s.%s[%s]" % (self.unit, gname, kind, cl.name)
                p = set(cl.props) if cl.props else props
                self.clauses.append((oid, p, cl.text))
                self.emit("        " + cl.text.strip().rstrip(",") + ",",
                          Tag("contract", fn=gname, clause=oid, props=p))
        block("requires", c.requires, "pre")
        block("ensures", c.ensures, "post")
        if c.decreases:
            oid = "%s.%s.decreases" % (self.unit, gname)
            self.clauses.append((oid, props, c.decreases))
            self.raw("    decreases", fn=gname, props=props)
            self.emit("        " + c.decreases + ",", Tag("contract", fn=gname, clause=oid, props=props))

    def _splice_body(self, gname, body, c, props):
        """Insert loop specs and proof hints.  Uses \x00<k>\x00 markers so that the
        emitter can tag the inserted lines."""
        self._inserts = []
        toks = code_tokens(tokenize(body))
        edits = []  # (offset, marker_index)
        # loops in token order
        ordinal = 0
        for k, t in enumerate(toks):
            if t.kind == "ident" and t.text in ("while", "loop", "for"):
                # `for` inside `impl ... for`/HRTB never occurs in bodies we extract
                ordinal += 1
                if ordinal not in c.loops:
                    iv = None
                    if c.optional_loops and t.text == "while" and k + 1 < len(toks) and re.fullmatch(r"__i\d+", toks[k + 1].text or ""):
                        iv = toks[k + 1].text
                    if iv is None:
                        continue
                    spec = {kk: ([(nn, tt.replace("{I}", iv)) + tuple(rest) for (nn, tt, *rest) in vv] if isinstance(vv, list) else vv.replace("{I}", iv))
                            for kk, vv in c.optional_loops.items()}
                    c.loops[ordinal] = spec
                spec = c.loops[ordinal]
                if t.text == "while" and k + 1 < len(toks) and re.fullmatch(r"__i\d+", toks[k + 1].text or ""):
                    # `{I}` in an explicit loop spec names the index variable of a rule-generated index loop
                    iv_ = toks[k + 1].text
                    def _sub1(x):
                        if isinstance(x, str):
                            return x.replace("{I}", iv_)
                        if isinstance(x, tuple):
                            return tuple(_sub1(y) for y in x)
                        if isinstance(x, Clause):
                            return Clause(x.name, x.text.replace("{I}", iv_), x.props)
                        return x

                    def _sub(vv):
                        if isinstance(vv, list):
                            return [_sub1(x) for x in vv]
                        return _sub1(vv)
                    spec = {kk: _sub(vv) for kk, vv in spec.items()}
                # loop body `{`: first `{` at depth 0 after the keyword
                depth = 0
                j = k + 1
                while j < len(toks):
                    u = toks[j]
                    if u.kind == "punct":
                        if u.text in "([":
                            depth += 1
                        elif u.text in ")]":
                            depth -= 1
                        elif u.text == "{" and depth == 0:
                            break
                    j += 1
                lines = []
                def add(kw, clauses, kind):
                    if not clauses:
                        return
                    lines.append(("        " + kw, None))
                    for cl in _clauses(clauses):
                        oid = "%s.%s.loop#%d.%s[%s]" % (self.unit, gname, ordinal, kind, cl.name)
                        p = set(cl.props) if cl.props else props
                        self.clauses.append((oid, p, cl.text))
                        lines.append(("            " + cl.text.strip().rstrip(",") + ",", (oid, p)))
                add("invariant_except_break", spec.get("invariant_except_break"), "inv")
                add("invariant", spec.get("invariant"), "inv")
                add("ensures", spec.get("ensures"), "ens")
                if spec.get("decreases"):
                    oid = "%s.%s.loop#%d.decreases" % (self.unit, gname, ordinal)
                    self.clauses.append((oid, props, spec["decreases"]))
                    lines.append(("        decreases", None))
                    lines.append(("            " + spec["decreases"] + ",", (oid, props)))
                self._inserts.append(lines)
                edits.append((toks[j].start, len(self._inserts) - 1, "brace"))
                if spec.get("body_prelude"):
                    self._inserts.append([("        " + x, None) for x in spec["body_prelude"].strip().split("\n")])
                    edits.append((toks[j].end, len(self._inserts) - 1, "stmt"))
                if spec.get("pre"):
                    a0 = k
                    if k >= 2 and toks[k - 1].text == ":" and toks[k - 2].kind == "lifetime":
                        a0 = k - 2
                    # an index loop produced by a rewrite rule starts at its `let mut __iN` statement
                    b0 = a0
                    while b0 >= 4 and not (toks[b0 - 1].text == ";" ):
                        b0 -= 1
                    if b0 + 2 < len(toks) and toks[b0].text == "let" and toks[b0 + 1].text == "mut" and re.fullmatch(r"__i\d+", toks[b0 + 2].text):
                        pass
                    # find the `let mut __iN` that precedes the while (same line by construction)
                    j0 = a0
                    while j0 > 0 and not (toks[j0].text == "let" and toks[j0 + 1].text == "mut" and re.fullmatch(r"__i\d+", toks[j0 + 2].text or "")):
                        j0 -= 1
                        if a0 - j0 > 12:
                            j0 = a0
                            break
                    self._inserts.append([("        " + x, None) for x in spec["pre"].strip().split("\n")])
                    edits.append((toks[j0].start, len(self._inserts) - 1, "stmt"))
                if spec.get("attrs"):
                    # attributes go before the loop keyword (or its label)
                    a = k
                    if k >= 2 and toks[k - 1].text == ":" and toks[k - 2].kind == "lifetime":
                        a = k - 2
                    self._inserts.append([("        " + x, None) for x in spec["attrs"]])
                    edits.append((toks[a].start, len(self._inserts) - 1, "stmt"))
        if c.body_prelude:
            self._inserts.append([("        " + x, None) for x in c.body_prelude.strip().split("\n")])
            edits.append((toks[0].end, len(self._inserts) - 1, "stmt"))
        missing = [k for k in range(1, ordinal + 1) if k not in c.loops]
        if missing and (c.ensures or c.requires):
            # a loop the contract knows nothing about (the code was restructured, or a rewrite
            # rule introduced it): its invariants are unknown, so failures are not conclusive
            self.unspecified_loops[gname] = len(missing)
        if max(list(c.loops.keys()) + [0]) > ordinal:
            raise ExtractError("%s: contract names loop #%d but body has %d loops"
                               % (gname, max(c.loops.keys()), ordinal))
        # hints: (anchor, where, text[, nth[, name]]) or dict(anchor=, where=, text=, nth=, name=)
        for h in c.hints:
            if isinstance(h, dict):
                anchor, where, proof = h["anchor"], h.get("where", "before"), h["text"]
                nth, hname = h.get("nth", 0), h.get("name")
                hprops = set(h["props"]) if h.get("props") else None
                optional = h.get("optional", False)
            else:
                anchor, where, proof = h[0], h[1], h[2]
                nth = h[3] if len(h) > 3 else 0
                hname = h[4] if len(h) > 4 else None
                hprops = None
                optional = False
            atoks = [t.text for t in code_tokens(tokenize(anchor))]
            hits = [a for a in range(len(toks) - len(atoks) + 1)
                    if all(toks[a + d].text == atoks[d] for d in range(len(atoks)))]
            if nth == "all":
                sel = hits
            else:
                if len(hits) <= nth and optional:
                    # a proof hint (no obligation of its own) whose anchor is gone: the proof may need it, in
                    # which case the function fails to verify and is classified like any other failure
                    continue
                if len(hits) <= nth:
                    raise ExtractError("%s: hint anchor %r (occurrence %s) not found" % (gname, anchor, nth))
                sel = [hits[nth]]
            if not sel:
                raise ExtractError("%s: hint anchor %r not found" % (gname, anchor))
            for k_site, a in enumerate(sel):
                if where == "before":
                    off = toks[a].start
                elif where == "after":
                    off = toks[a + len(atoks) - 1].end
                elif where == "after_stmt":
                    depth, j = 0, a
                    while j < len(toks):
                        u = toks[j]
                        if u.kind == "punct":
                            if u.text in "([{":
                                depth += 1
                            elif u.text in ")]}":
                                depth -= 1
                            elif u.text == ";" and depth == 0:
                                break
                        j += 1
                    if j >= len(toks):
                        raise ExtractError("%s: no statement end after hint anchor %r" % (gname, anchor))
                    off = toks[j].end
                elif where == "after_block":
                    # after the closing brace of the first `{ .. }` that follows the anchor (a loop or an `if`)
                    depth, j, seen = 0, a, False
                    while j < len(toks):
                        u = toks[j]
                        if u.kind == "punct":
                            if u.text in "([{":
                                depth += 1
                                seen = seen or u.text == "{"
                            elif u.text in ")]}":
                                depth -= 1
                                if seen and depth == 0 and u.text == "}":
                                    break
                        j += 1
                    if j >= len(toks):
                        raise ExtractError("%s: no block after hint anchor %r" % (gname, anchor))
                    off = toks[j].end
                else:
                    raise ExtractError("bad hint position %r" % where)
                label = hname or re.sub(r"\s+", " ", anchor)[:40]
                if len(sel) > 1:
                    label = "%s#%d" % (label, k_site + 1)
                oid = "%s.%s.site[%s]" % (self.unit, gname, label)
                hp = hprops if hprops is not None else props
                if hname:
                    self.clauses.append((oid, hp, re.sub(r"\s+", " ", proof)[:200]))
                self._inserts.append([("        " + ln, (oid, hp)) for ln in proof.strip().split("\n")])
                edits.append((off, len(self._inserts) - 1, "stmt"))
        edits.sort(key=lambda e: (e[0], e[1]))
        out, pos = [], 0
        for off, idx, _ in edits:
            out.append(body[pos:off])
            out.append("\x00%d\x00" % idx)
            pos = off
        out.append(body[pos:])
        return "".join(out)

    def _emit_body(self, body, rel, line0, gname, props):
        """Emit body text; markers become tagged inserted lines.  Repo lines are
        tracked by counting newlines of the (line-aligned) body text."""
        parts = re.split(r"\x00(\d+)\x00", body)
        repo_line = line0
        for k, part in enumerate(parts):
            if k % 2 == 0:
                segs = part.split("\n")
                for s_i, s in enumerate(segs):
                    if s_i > 0:
                        repo_line += 1
                    if s.strip() == "" and (s_i == 0 or s_i == len(segs) - 1) and len(segs) > 1:
                        # keep alignment but avoid useless blank lines at splice edges
                        if s_i == 0:
                            continue
                    self.lines.append(s)
                    self.tags.append(Tag("repo", fn=gname, repo_file=rel, repo_line=repo_line,
                                         props=props))
            else:
                for (ln, meta) in self._inserts[int(part)]:
                    self.lines.append(ln)
                    if meta:
                        self.tags.append(Tag("contract", fn=gname, clause=meta[0], props=meta[1]))
                    else:
                        self.tags.append(Tag("glue", fn=gname, props=props))

    def _emit_canary(self, gname, head, c, wrap_impl, props):
        """Vacuity canary: same signature and preconditions, body `assert(false)`.
        Must FAIL; if it verifies the preconditions (or the prelude) are contradictory."""
        cname = "__canary_" + gname
        h = re.sub(r"\bfn\s+%s\b" % re.escape(gname), "fn " + cname, head, count=1)
        self.canaries.append(cname)
        if wrap_impl:
            self.raw("impl %s {" % wrap_impl_header(wrap_impl), fn=cname)
        self.raw("#[allow(unused_variables, unused_mut)]", fn=cname)
        self.raw(h, fn=cname)
        self.raw("    requires", fn=cname)
        for cl in c.requires:
            self.raw("        " + cl.text.strip().rstrip(",") + ",", fn=cname)
        self.raw("{ proof { assert(false); } vstd::pervasive::unreached() }", kind="canary", fn=cname)
        if wrap_impl:
            self.raw("}", fn=cname)

    def add_canary_proof(self, name="__canary_prelude"):
        self.canaries.append(name)
        self.raw("proof fn %s() {" % name, fn=name)
        self.raw("    assert(false);", kind="canary", fn=name)
        self.raw("}", fn=name)

    def append_missing_fn(self, name, rules=()):
        """A function the extracted code calls but the unit did not name (e.g. a helper added by a
        refactoring): extract it from one of the unit's source files, without a contract, and
        place it before the closing footer.  Returns True if found."""
        for rel in list(self._sources.keys()):
            try:
                self._sources[rel].find_fn(name)
            except ExtractError:
                continue
            footer = []
            while self.lines and (self.lines[-1].strip() in ("fn main() {}", "} // verus!", "") or self.lines[-1].startswith("} // verus")):
                footer.insert(0, (self.lines.pop(), self.tags.pop()))
            self.add_fn(rel, name, rules=rules)
            self.auto_added = getattr(self, "auto_added", []) + [name]
            for (ln, tg) in footer:
                self.lines.append(ln)
                self.tags.append(tg)
            return True
        return False

    def stub_auto_added(self, name):
        """An auto-added helper that does not compile in the extracted setting (it uses types or
        constants outside the unit): keep its signature, replace its body by an external_body stub
        whose result is arbitrary.  Only for helpers without `&mut` parameters (a pure helper with an
        arbitrary result over-approximates every behaviour except panics and non-termination, which
        are listed as assumptions).  Returns True if done."""
        idx = [k for k, t in enumerate(self.tags) if t is not None and t.fn == name and t.kind == "repo"]
        if not idx or name not in getattr(self, "auto_added", []):
            return False
        a, b = idx[0], idx[-1]
        sig_end = None
        for k in range(a, b + 1):
            if self.lines[k].rstrip().endswith("{"):
                sig_end = k
                break
        if sig_end is None or "&mut" in " ".join(self.lines[a:sig_end + 1]):
            return False
        for k in range(sig_end + 1, b + 1):
            self.lines[k] = ""
        self.lines[b] = "    unimplemented!() }"
        self.lines.insert(a, "#[verifier::external_body]")
        self.tags.insert(a, self.tags[a])
        self.auto_stubbed = getattr(self, "auto_stubbed", []) + [name]
        return True

    # ------------------------------------------------------------------
    def text(self):
        return "\n".join(self.lines) + "\n"

    def tag_at(self, line_no):
        if 1 <= line_no <= len(self.tags):
            return self.tags[line_no - 1]
        return None


def wrap_impl_header(impl):
    return impl
