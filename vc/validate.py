#!/usr/bin/env python3-vt
import json, sys, glob, jsonschema
ms = json.load(open('/root/.vp/MANIFEST.schema.json'))
es = json.load(open('/root/.vp/EVIDENCE.schema.json'))
m = json.load(open('/verif/MANIFEST.json'))
jsonschema.validate(m, ms)
for c in m['checks']:
    p = '/verif/' + c['evidence_file']
    try:
        e = json.load(open(p))
        jsonschema.validate(e, es)
        cov = e['coverage']
        flag = '' if cov.get('obligations') == cov.get('discharged') else '  (discharged != obligations)'
        print('ok', c['property_id'], cov.get('obligations'), cov.get('discharged'), flag)
    except Exception as ex:
        print('BAD', c['property_id'], str(ex)[:200])
print('manifest valid; claimed:', len(m['checks']), 'n/a:', len(m.get('not_applicable', [])))
