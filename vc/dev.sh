#!/bin/sh
# dev helper: generate a unit and run verus on it, printing compact errors
cd /verif && python3 - "$1" <<'PY'
import sys
sys.path.insert(0,'/verif/vc')
import check, os
m=check.load_unit(sys.argv[1])
u=m.build('quick')
os.makedirs('/verif/.cache/gen',exist_ok=True)
open('/verif/.cache/gen/%s.rs'%sys.argv[1],'w').write(u.text())
print(len(u.lines), u.rules_used)
PY
cd /verif/.cache/gen && verus $1.rs --rlimit ${RL:-60} --multiple-errors 6 2>&1 | grep -v "^note: auto\|trigger\|^$" | head -${N:-150}
