"""Response slice (unit `lspmsg`, C28): of lsp.rs `handle_message`, keep the control structure, every test
"this message carries an id" (`if let Some(id) = parsed.id`, `if let Some(id) = message.get("id")`), every call
that appends a response for that id (`push_response`, `push_error`, `push_request_response`), and which match arm
is the `None` arm (a message without a method is itself a response).  Everything else is dropped (other conditions
become nondeterministic).  The slice over-approximates the paths of the function."""
import re

from slicer import Slicer

RESP_RX = r"\b(push_request_response|push_response|push_error)\s*\("
ID_TEST = re.compile(r"^\s*let\s+Some\s*\(\s*\w+\s*\)\s*=\s*(parsed\s*\.\s*id|message\s*\.\s*get\s*\(\s*\"id\"\s*\))\s*$")


class RespSlicer(Slicer):
    def __init__(self, src):
        Slicer.__init__(self, src, RESP_RX)
        self.ret = "return (n, is_response_message);"
        self.n_id_tests = 0
        self.n_none_arms = 0

    def render_effect(self, m):
        return "n = respond(has_id, n, \"%s\");" % m.group(1)

    def control(self, k, b, indent):
        t = self.toks[k]
        if t.text == "if" and self.toks[k + 1].text == "let":
            open_ = self._body_open(k, b)
            if ID_TEST.match(self.text(k + 1, open_)):
                self.n_id_tests += 1
                c = self.close(open_)
                self.emit("%sif has_id {" % indent, k)
                self.block(open_ + 1, c, indent + "    ")
                nxt = c + 1
                if nxt < b and self.toks[nxt].kind == "ident" and self.toks[nxt].text == "else":
                    c2 = self.close(nxt + 1)
                    self.emit("%s} else {" % indent, nxt)
                    self.block(nxt + 2, c2, indent + "    ")
                    self.emit("%s}" % indent, c2)
                    return c2 + 1
                self.emit("%s}" % indent, c)
                return nxt
        return Slicer.control(self, k, b, indent)

    def emit_arms(self, arms, k, indent):
        self.emit("%smatch nondet_u8() {" % indent, k)
        for i, (kind, a2, b2, arrow, pat) in enumerate(arms):
            p = "_" if i == len(arms) - 1 else str(i)
            self.emit("%s    %s => {" % (indent, p), arrow)
            if self.text(pat, arrow).strip() == "None":
                self.n_none_arms += 1
                self.emit("%s        is_response_message = true;" % indent, arrow)
            self.block(a2, b2, indent + "        ")
            self.emit("%s    }" % indent, b2 - 1 if b2 > 0 else arrow)
        if not arms:
            self.emit("%s    _ => {}" % indent, k)
        self.emit("%s}" % indent, k)
