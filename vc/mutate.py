#!/usr/bin/env python3
"""Mutation self-test (thorough tier, DESIGN §2.7): each mutant is a text substitution in a scratch
copy of /repo/src; the named obligation must be reported violated.  Benign edits must stay green.
Usage: mutate.py <prop>   -> prints a JSON summary; exit 0 always (the caller decides)."""
import glob
import json
import os
import shutil
import subprocess
import sys
from concurrent.futures import ThreadPoolExecutor

HERE = os.path.dirname(os.path.abspath(__file__))
ROOT = os.path.dirname(HERE)
REPO = os.environ.get("VERIF_REPO", "/repo")


def run_one(prop, m, idx):
    scratch = "/var/tmp/verif_mut_%d_%s_%d" % (os.getpid(), prop, idx)
    try:
        os.makedirs(scratch, exist_ok=True)
        shutil.copytree(os.path.join(REPO, "src"), os.path.join(scratch, "src"),
                        ignore=shutil.ignore_patterns("test_files"))
        p = os.path.join(scratch, m["file"])
        text = open(p, encoding="utf-8").read()
        if text.count(m["find"]) < 1:
            return {"name": m["name"], "status": "not-applicable", "why": "anchor text not found in the current tree"}
        text = text.replace(m["find"], m["replace"], 1 if not m.get("all") else -1)
        open(p, "w", encoding="utf-8").write(text)
        env = dict(os.environ)
        env["VERIF_REPO"] = scratch
        env["VERIF_CACHE_SUFFIX"] = "_mut%d" % idx
        env["VERIF_NO_BOUNDED"] = "1"
        out = subprocess.run([sys.executable, os.path.join(HERE, "check.py"), prop, "--raw-json"],
                             capture_output=True, text=True, env=env)
        line = [l for l in out.stdout.split("\n") if l.startswith("{")]
        if not line:
            return {"name": m["name"], "status": "error", "why": (out.stdout + out.stderr)[-300:]}
        r = json.loads(line[-1])
        if m.get("benign"):
            ok = not r["violated"] and not r["undecided"]
            return {"name": m["name"], "status": "kept-green" if ok else "FALSE-ALARM", "violated": r["violated"], "undecided": r["undecided"]}
        hit = [v for v in r["violated"] if any(v.startswith(e) or e in v for e in m["expect"])]
        if hit:
            return {"name": m["name"], "status": "killed", "by": hit}
        return {"name": m["name"], "status": "SURVIVED", "violated": r["violated"], "undecided": r["undecided"][:2]}
    finally:
        shutil.rmtree(scratch, ignore_errors=True)
        shutil.rmtree(os.path.join(ROOT, ".cache", "gen_mut%d" % idx), ignore_errors=True)


def main():
    prop = sys.argv[1]
    reg = json.load(open(os.path.join(ROOT, "units", "registry.json")))
    muts = []
    for u in reg[prop]["units"]:
        for f in sorted(glob.glob(os.path.join(ROOT, "units", u, "mutants", "*.json"))):
            for m in json.load(open(f)):
                if prop in m.get("props", [prop]):
                    muts.append(m)
    with ThreadPoolExecutor(max_workers=int(os.environ.get("VERIF_JOBS", "6"))) as ex:
        res = list(ex.map(lambda im: run_one(prop, im[1], im[0]), enumerate(muts)))
    print(json.dumps({"mutants": res}))


if __name__ == "__main__":
    main()
