"""The fixed rewrite table (DESIGN §2.2).  Every rule is purely syntactic and keeps the
number of lines of the text it touches, so generated lines stay aligned with /repo lines.

Each rule is `fn(text) -> (text, n_applied)`.  Rules never look at what the code computes.
"""
import re


def _balanced(text, i):
    """text[i] is an opening bracket; return index just past the matching close.
    Aware of string/char literals and comments well enough for expression text."""
    pairs = {"(": ")", "[": "]", "{": "}"}
    stack = []
    n = len(text)
    while i < n:
        c = text[i]
        if c == '"':
            i += 1
            while i < n and text[i] != '"':
                i += 2 if text[i] == "\\" else 1
        elif c == "'" and i + 2 < n and (text[i + 2] == "'" or text[i + 1] == "\\"):
            i = text.index("'", i + 2)
        elif text.startswith("//", i):
            j = text.find("\n", i)
            i = n if j < 0 else j
            continue
        elif c in pairs:
            stack.append(pairs[c])
        elif stack and c == stack[-1]:
            stack.pop()
            if not stack:
                return i + 1
        i += 1
    raise ValueError("unbalanced")


def _pad(orig, new):
    """Make `new` span exactly as many lines as `orig` (join extra, pad missing)."""
    want = orig.count("\n")
    have = new.count("\n")
    if have > want:
        parts = new.split("\n")
        head = parts[:want]
        tail = " ".join(p.strip() for p in parts[want:])
        new = "\n".join(head + [tail])
    elif have < want:
        new = new + "\n" * (want - have)
    return new


def sub(pattern, repl, text, flags=0):
    """regex substitution that preserves line counts."""
    n = [0]
    rx = re.compile(pattern, flags)

    def f(m):
        n[0] += 1
        r = m.expand(repl) if isinstance(repl, str) else repl(m)
        return _pad(m.group(0), r)
    return rx.sub(f, text), n[0]


_loop_counter = [0]


def _fresh():
    _loop_counter[0] += 1
    return "__i%d" % _loop_counter[0]


def reset_counter():
    _loop_counter[0] = 0


ITER_SRC = r"(&?[A-Za-z_][A-Za-z0-9_\.]*?)"


def r4_for_iter(text):
    """R4: `for PAT in X.iter() {` / `for PAT in &X {` / `for PAT in X {` (X a path)
    -> index loop.  The increment is placed before the body so `continue` is preserved."""
    n = 0
    rx = re.compile(r"for\s+(?P<pat>[^{};]+?)\s+in\s+(?P<src>&?[A-Za-z_][A-Za-z0-9_\.]*?)(?P<it>\.iter\(\))?\s*\{")
    out, pos = [], 0
    for m in rx.finditer(text):
        pat, src = m.group("pat").strip(), m.group("src")
        if m.group("it") is None and not src.startswith("&") and not src in ITER_BY_VALUE_OK:
            continue
        src = src.lstrip("&")
        i = _fresh()
        new = ("let mut %s: usize = 0; while %s < %s.len() { let %s = &%s[%s]; %s += 1;"
               % (i, i, src, pat, src, i, i))
        out.append(text[pos:m.start()])
        out.append(_pad(m.group(0), new))
        pos = m.end()
        n += 1
    out.append(text[pos:])
    return "".join(out), n


# names a unit may register as "iterating this by value is slice iteration" (e.g. `tys: &[T]`)
ITER_BY_VALUE_OK = set()


def r4e_for_enumerate(text):
    """R4e: `for (i, x) in X.iter().enumerate() {` -> index loop binding both."""
    n = 0
    rx = re.compile(r"for\s+\((?P<i>\w+),\s*(?P<x>\w+)\)\s+in\s+(?P<src>[A-Za-z_][\w\.]*?)\.iter\(\)\.enumerate\(\)\s*\{")
    out, pos = [], 0
    for m in rx.finditer(text):
        k = _fresh()
        src = m.group("src")
        new = ("let mut %s: usize = 0; while %s < %s.len() { let %s = %s; let %s = &%s[%s]; %s += 1;"
               % (k, k, src, m.group("i"), k, m.group("x"), src, k, k))
        out.append(text[pos:m.start()])
        out.append(_pad(m.group(0), new))
        pos = m.end()
        n += 1
    out.append(text[pos:])
    return "".join(out), n


def r4c_for_chars(text):
    """R4c: `for c in S.chars() {` -> index loop over the chars (vstd: unicode_len / get_char)."""
    n = 0
    rx = re.compile(r"for\s+(?P<c>\w+)\s+in\s+(?P<s>[A-Za-z_][\w\.]*?)\.chars\(\)\s*\{")
    out, pos = [], 0
    for m in rx.finditer(text):
        k = _fresh()
        s_ = m.group("s")
        new = "let mut %s: usize = 0; while %s < %s.unicode_len() { let %s = %s.get_char(%s); %s += 1;" % (k, k, s_, m.group("c"), s_, k, k)
        out.append(text[pos:m.start()])
        out.append(_pad(m.group(0), new))
        pos = m.end()
        n += 1
    out.append(text[pos:])
    return "".join(out), n


def r5e_for_zip_enumerate(text):
    """R5e: `for (i, (a, b)) in X.iter().zip(Y).enumerate() {` -> index loop to min len, binding i."""
    n = 0
    rx = re.compile(r"for\s+\((?P<i>\w+),\s*\((?P<a>\w+),\s*(?P<b>\w+)\)\)\s+in\s+(?P<x>[A-Za-z_][\w\.]*?)\.iter\(\)\s*\.zip\((?P<y>&?[A-Za-z_][\w\.]*?)(\.iter\(\))?\)\s*\.enumerate\(\)\s*\{")
    out, pos = [], 0
    for m in rx.finditer(text):
        k = _fresh()
        x, y = m.group("x"), m.group("y").lstrip("&")
        new = ("let mut %s: usize = 0; while %s < %s.len() && %s < %s.len() { let %s = %s; let %s = &%s[%s]; let %s = &%s[%s]; %s += 1;"
               % (k, k, x, k, y, m.group("i"), k, m.group("a"), x, k, m.group("b"), y, k, k))
        out.append(text[pos:m.start()])
        out.append(_pad(m.group(0), new))
        pos = m.end()
        n += 1
    out.append(text[pos:])
    return "".join(out), n


def r5_for_zip(text):
    """R5: `for (a, b) in X.iter().zip(Y)` / `.zip(Y.iter())` -> index loop to min len."""
    n = 0
    rx = re.compile(r"for\s+\((?P<a>\w+),\s*(?P<b>\w+)\)\s+in\s+(?P<x>[A-Za-z_][\w\.]*?)\.iter\(\)\s*\.zip\((?P<y>&?[A-Za-z_][\w\.]*?)(\.iter\(\))?\)\s*\{")
    out, pos = [], 0
    for m in rx.finditer(text):
        i = _fresh()
        x, y = m.group("x"), m.group("y").lstrip("&")
        new = ("let mut %s: usize = 0; while %s < %s.len() && %s < %s.len() { let %s = &%s[%s]; let %s = &%s[%s]; %s += 1;"
               % (i, i, x, i, y, m.group("a"), x, i, m.group("b"), y, i, i))
        out.append(text[pos:m.start()])
        out.append(_pad(m.group(0), new))
        pos = m.end()
        n += 1
    out.append(text[pos:])
    return "".join(out), n


def r6_for_rev(text):
    """R6: `for x in X.iter().rev() {` -> descending index loop."""
    n = 0
    rx = re.compile(r"for\s+(?P<pat>\w+)\s+in\s+(?P<x>[A-Za-z_][\w\.]*?)\.iter\(\)\.rev\(\)\s*\{")
    out, pos = [], 0
    for m in rx.finditer(text):
        i = _fresh()
        x, pat = m.group("x"), m.group("pat")
        # (`i <= X.len()` is redundant — i starts at X.len() and only decreases — and spares an invariant)
        new = "let mut %s: usize = %s.len(); while %s > 0 && %s <= %s.len() { %s -= 1; let %s = &%s[%s];" % (i, x, i, i, x, i, pat, x, i)
        out.append(text[pos:m.start()])
        out.append(_pad(m.group(0), new))
        pos = m.end()
        n += 1
    out.append(text[pos:])
    return "".join(out), n


def r4b_for_by_value(text):
    """R4b: `for PAT in X {` consuming a Vec -> `let mut it = vi_into_iter(X); while let
    Some(PAT) = it.next() {` (the definition of a `for` loop: IntoIterator::into_iter + next)."""
    n = 0
    rx = re.compile(r"for\s+(?P<pat>\([^)]*\)|\w+)\s+in\s+(?P<x>[a-z_]\w*)\s*\{")
    out, pos = [], 0
    for m in rx.finditer(text):
        if m.group("x") not in ITER_BY_VALUE_OK:
            continue
        i = _fresh().replace("__i", "__it")
        new = "let mut %s = vi_into_iter(%s); while let Some(%s) = %s.next() {" % (i, m.group("x"), m.group("pat"), i)
        out.append(text[pos:m.start()])
        out.append(_pad(m.group(0), new))
        pos = m.end()
        n += 1
    out.append(text[pos:])
    return "".join(out), n


def r7_for_chain(text):
    """R7: `for x in A.iter().chain(B.iter()) {` over two const tables -> index loop over A
    then B through generated accessors `A_len()/A_get(i)` (see units: literal tables)."""
    n = 0
    rx = re.compile(r"for\s+(?P<pat>\w+)\s+in\s+(?P<a>[A-Z_][A-Z0-9_]*)\.iter\(\)\.chain\((?P<b>[A-Z_][A-Z0-9_]*)\.iter\(\)\)\s*\{")
    out, pos = [], 0
    for m in rx.finditer(text):
        i = _fresh()
        a, b, pat = m.group("a"), m.group("b"), m.group("pat")
        new = ("let mut %s: usize = 0; while %s < %s_len() + %s_len() { let %s = if %s < %s_len() { %s_get(%s) } else { %s_get(%s - %s_len()) }; %s += 1;"
               % (i, i, a, b, pat, i, a, a, i, b, i, a, i))
        out.append(text[pos:m.start()])
        out.append(_pad(m.group(0), new))
        pos = m.end()
        n += 1
    out.append(text[pos:])
    return "".join(out), n


def r8_zip_all(text):
    """R8: `X.iter().zip(Y.iter()).all(|(a, b)| BODY)` -> short-circuiting index loop."""
    n = 0
    rx = re.compile(r"(?P<x>[A-Za-z_][\w\.]*?)\s*\.iter\(\)\s*\.zip\((?P<y>[A-Za-z_][\w\.]*?)\.iter\(\)\)\s*\.all\(\|\((?P<a>\w+),\s*(?P<b>\w+)\)\|\s*")
    while True:
        m = rx.search(text)
        if not m:
            break
        # closure body runs to the `)` closing `.all(`
        open_idx = text.rindex("(", m.start(), m.end() - 1)
        # find the `(` of `.all(`
        all_idx = text.index(".all(", m.start()) + 4
        close = _balanced(text, all_idx)
        body = text[m.end():close - 1].strip()
        i = _fresh()
        x, y = m.group("x"), m.group("y")
        new = ("{ let mut %s: usize = 0; let mut __all: bool = true; "
               "while __all && %s < %s.len() && %s < %s.len() { let %s = &%s[%s]; let %s = &%s[%s]; %s += 1; "
               "if !(%s) { __all = false; } } __all }"
               % (i, i, x, i, y, m.group("a"), x, i, m.group("b"), y, i, i, body))
        text = text[:m.start()] + _pad(text[m.start():close], new) + text[close:]
        n += 1
    return text, n


def _split_args(argtext):
    """split macro arguments at top-level commas"""
    out, depth, cur, i, n = [], 0, [], 0, len(argtext)
    while i < n:
        c = argtext[i]
        if c == '"':
            j = i + 1
            while j < n and argtext[j] != '"':
                j += 2 if argtext[j] == "\\" else 1
            cur.append(argtext[i:j + 1])
            i = j + 1
            continue
        if c == "'" and i + 2 < n and (argtext[i + 2] == "'" or argtext[i + 1] == "\\"):
            j = argtext.index("'", i + 2)
            cur.append(argtext[i:j + 1])
            i = j + 1
            continue
        if c in "([{":
            depth += 1
        elif c in ")]}":
            depth -= 1
        if c == "," and depth == 0:
            out.append("".join(cur).strip())
            cur = []
        else:
            cur.append(c)
        i += 1
    last = "".join(cur).strip()
    if last:
        out.append(last)
    return out


def r9_format(text):
    """R9: format!/msgtext!/msgcode!/print macros -> opaque prelude values.  The argument
    expressions after the format string are KEPT (they are evaluated, and may panic): they
    are passed, by reference, to the opaque function."""
    total = 0
    for mac, fn in (("format!", "vf_opaque_string"), ("msgtext!", "vf_opaque_part"),
                    ("msgcode!", "vf_opaque_part"), ("println!", "vf_emit"),
                    ("eprintln!", "vf_emit"), ("print!", "vf_emit"), ("eprint!", "vf_emit")):
        while True:
            m = re.search(r"(?<![A-Za-z0-9_])" + re.escape(mac) + r"\s*\(", text)
            if not m:
                break
            close = _balanced(text, m.end() - 1)
            args = _split_args(text[m.end():close - 1])
            rest = []
            for a in args[1:]:
                a = re.sub(r"^[A-Za-z_][A-Za-z0-9_]*\s*=\s*(?!=)", "", a)  # named argument
                rest.append("&(%s)" % a)
            repl = "%s()" % fn if not rest else "%s_args((%s,))" % (fn, ", ".join(rest))
            text = text[:m.start()] + _pad(text[m.start():close], repl) + text[close:]
            total += 1
    return text, total


def named_ret(text, name="r"):
    """`-> T {` in a fn signature becomes `-> (r: T)` so postconditions can name it.
    Applied to the signature text only (caller passes the signature)."""
    m = re.search(r"->\s*", text)
    if not m:
        return text
    ty = text[m.end():].rstrip()
    trail = text[m.end():][len(ty):]
    if ty.startswith("(") and re.match(r"\(\s*\w+\s*:", ty):
        return text
    return text[:m.end()] + "(%s: %s)" % (name, ty) + trail


RULES = {
    "R4": r4_for_iter,
    "R4b": r4b_for_by_value,
    "R4c": r4c_for_chars,
    "R4e": r4e_for_enumerate,
    "R5": r5_for_zip,
    "R5e": r5e_for_zip_enumerate,
    "R6": r6_for_rev,
    "R7": r7_for_chain,
    "R8": r8_zip_all,
    "R9": r9_format,
}


def simple(rule_id, pattern, repl, flags=0):
    """Build a call-renaming rule (R1/R2/R3/R10/R11 families)."""
    def f(text):
        return sub(pattern, repl, text, flags)
    f.rule_id = rule_id
    f.pattern = pattern
    return f
