#!/bin/sh
# Offline setup: create cache dir and warm the Verus first-run cache.
DIR="$(cd "$(dirname "$0")" && pwd)"
mkdir -p "$DIR/.cache/gen" "$DIR/evidence"
cat > "$DIR/.cache/gen/warm.rs" <<'EOT'
use vstd::prelude::*;
verus! { proof fn warm() ensures 1 + 1 == 2int {} }
fn main() {}
EOT
(cd "$DIR/.cache/gen" && verus warm.rs >/dev/null 2>&1) || true
exit 0
