#!/bin/sh
# Offline setup: create cache dir, warm the Verus first-run cache, and pre-build the garden
# binary that the bounded stand-ins and the replay step run (cargo is incremental: every check
# still rebuilds from /repo's current working tree).  Never fails: a tree that does not build
# is reported by the checks themselves as "undecided".
DIR="$(cd "$(dirname "$0")" && pwd)"
mkdir -p "$DIR/.cache/gen" "$DIR/evidence"
cat > "$DIR/.cache/gen/warm.rs" <<'EOT'
use vstd::prelude::*;
verus! { proof fn warm() ensures 1 + 1 == 2int {} }
fn main() {}
EOT
(cd "$DIR/.cache/gen" && verus warm.rs >/dev/null 2>&1) || true
REPO="${VERIF_REPO:-/repo}"
(cd "$REPO" && CARGO_NET_OFFLINE=true CARGO_TARGET_DIR="${VERIF_TARGET_DIR:-$REPO/target}" \
    cargo build --offline --quiet >/dev/null 2>&1) || true
exit 0
