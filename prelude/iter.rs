// ---- prelude/iter.rs: `Vec<T>::into_iter()` + `Iterator::next` (ASSUMED: yields the elements
// in order, then None) ----------------------------------------------------------------------
#[verifier::external_body]
#[verifier::reject_recursive_types(T)]
pub struct VecIntoIter<T> { _o: core::marker::PhantomData<T> }
pub uninterp spec fn it_rest<T>(it: &VecIntoIter<T>) -> Seq<T>;

#[verifier::external_body]
pub fn vi_into_iter<T>(v: Vec<T>) -> (r: VecIntoIter<T>)
    ensures it_rest(&r) == v@,
{ unimplemented!() }

impl<T> VecIntoIter<T> {
    #[verifier::external_body]
    pub fn next(&mut self) -> (r: Option<T>)
        ensures
            it_rest(old(self)).len() == 0 ==> r is None && it_rest(final(self)) == it_rest(old(self)),
            it_rest(old(self)).len() > 0 ==> r == Some(it_rest(old(self))[0]) && it_rest(final(self)) == it_rest(old(self)).drop_first(),
    { unimplemented!() }
}
