// ---- prelude/strings.rs: assumed specifications of std String/str operations -------------
// Each `external_body` function below is an ASSUMPTION: its ensures clause is the std
// documentation of the operation the rewrite table maps to it.
#[verifier::external_body]
pub fn vs_string_eq_lit(s: &String, lit: &str) -> (r: bool)
    ensures r == (s@ == lit@),
{ s.as_str() == lit }

#[verifier::external_body]
pub fn vs_string_eq(a: &String, b: &String) -> (r: bool)
    ensures r == (a@ == b@),
{ a == b }

#[verifier::external_body]
pub fn vs_string_from_lit(lit: &str) -> (r: String)
    ensures r@ == lit@,
{ lit.to_owned() }

#[verifier::external_body]
pub fn vc_clone<T>(x: &T) -> (r: T)
    ensures r == *x,
{ unimplemented!() }
