// ---- prelude/text.rs: a CONTENT-level ghost model of `str` for the text-editing units (lsppos,
// rename, fmtedits).  A string is its sequence of chars `s@` (vstd's view); byte offsets are prefix
// sums of `clen` (char::len_utf8).  The spec functions and lemmas in this file are PROVED by
// Verus; only the `external_body` items (uninterpreted char widths, std operations) are ASSUMED,
// each with the std documentation of the operation as its specification.

pub mod text_axioms {
    use super::*;
pub uninterp spec fn clen(c: char) -> nat;      // char::len_utf8
pub uninterp spec fn clen16(c: char) -> nat;    // char::len_utf16

#[verifier::external_body]
pub broadcast proof fn axiom_clen(c: char)
    ensures 1 <= #[trigger] clen(c) <= 4, (c as u32) < 128 ==> clen(c) == 1,
{}
#[verifier::external_body]
pub broadcast proof fn axiom_clen16(c: char)
    ensures 1 <= #[trigger] clen16(c) <= 2,
{}

/// Rust allocations are at most isize::MAX bytes
#[verifier::external_body]
pub broadcast proof fn axiom_len_bound(cs: Seq<char>)
    ensures #[trigger] blen_cs(cs) <= isize::MAX,
{}
/// length in bytes of a char sequence
pub open spec fn blen_cs(cs: Seq<char>) -> nat
    decreases cs.len(),
{
    if cs.len() == 0 { 0 } else { blen_cs(cs.drop_last()) + clen(cs.last()) }
}
/// length in UTF-16 code units of a char sequence
pub open spec fn u16_cs(cs: Seq<char>) -> nat
    decreases cs.len(),
{
    if cs.len() == 0 { 0 } else { u16_cs(cs.drop_last()) + clen16(cs.last()) }
}
}
pub use text_axioms::*;
broadcast use {text_axioms::axiom_clen, text_axioms::axiom_clen16, text_axioms::axiom_len_bound};

/// byte offset of char index k
pub open spec fn off(cs: Seq<char>, k: int) -> nat { blen_cs(cs.take(k)) }
/// byte offset o is a char boundary of cs
pub open spec fn is_cbt(cs: Seq<char>, o: int) -> bool {
    exists|k: int| 0 <= k <= cs.len() && #[trigger] off(cs, k) == o
}
/// the char index of a boundary offset
pub open spec fn cix(cs: Seq<char>, o: int) -> int {
    choose|k: int| 0 <= k <= cs.len() && #[trigger] off(cs, k) == o
}

pub proof fn lemma_off_step(cs: Seq<char>, k: int)
    requires 0 <= k < cs.len(),
    ensures off(cs, k + 1) == off(cs, k) + clen(cs[k]),
{
    assert(cs.take(k + 1).drop_last() =~= cs.take(k));
    assert(cs.take(k + 1).last() == cs[k]);
}
pub proof fn lemma_off_zero(cs: Seq<char>)
    ensures off(cs, 0) == 0, off(cs, cs.len() as int) == blen_cs(cs),
{
    assert(cs.take(0) =~= Seq::<char>::empty());
    assert(cs.take(cs.len() as int) =~= cs);
}
pub proof fn lemma_off_mono(cs: Seq<char>, i: int, j: int)
    requires 0 <= i <= j <= cs.len(),
    ensures off(cs, i) + (j - i) <= off(cs, j), off(cs, j) <= off(cs, i) + 4 * (j - i),
    decreases j - i,
{
    broadcast use axiom_clen;
    if i < j {
        lemma_off_mono(cs, i, j - 1);
        lemma_off_step(cs, j - 1);
    }
}
pub proof fn lemma_off_inj(cs: Seq<char>, i: int, j: int)
    requires 0 <= i <= cs.len(), 0 <= j <= cs.len(), off(cs, i) == off(cs, j),
    ensures i == j,
{
    if i < j { lemma_off_mono(cs, i, j); } else if j < i { lemma_off_mono(cs, j, i); }
}
pub proof fn lemma_cix(cs: Seq<char>, k: int)
    requires 0 <= k <= cs.len(),
    ensures is_cbt(cs, off(cs, k) as int), cix(cs, off(cs, k) as int) == k,
{
    let o = off(cs, k) as int;
    let k2 = cix(cs, o);
    lemma_off_inj(cs, k, k2);
}
pub proof fn lemma_cix_props(cs: Seq<char>, o: int)
    requires is_cbt(cs, o),
    ensures 0 <= cix(cs, o) <= cs.len(), off(cs, cix(cs, o)) == o,
{}
pub proof fn lemma_blen_concat(a: Seq<char>, b: Seq<char>)
    ensures blen_cs(a + b) == blen_cs(a) + blen_cs(b), u16_cs(a + b) == u16_cs(a) + u16_cs(b),
    decreases b.len(),
{
    if b.len() == 0 {
        assert(a + b =~= a);
    } else {
        assert((a + b).drop_last() =~= a + b.drop_last());
        assert((a + b).last() == b.last());
        lemma_blen_concat(a, b.drop_last());
    }
}
/// offsets inside a sub-range are offsets of the whole, shifted
pub proof fn lemma_off_sub(cs: Seq<char>, i: int, j: int, k: int)
    requires 0 <= i <= j <= cs.len(), 0 <= k <= j - i,
    ensures off(cs.subrange(i, j), k) + off(cs, i) == off(cs, i + k),
        blen_cs(cs.subrange(i, j)) + off(cs, i) == off(cs, j),
{
    assert(cs.take(i + k) =~= cs.take(i) + cs.subrange(i, j).take(k));
    lemma_blen_concat(cs.take(i), cs.subrange(i, j).take(k));
    assert(cs.take(j) =~= cs.take(i) + cs.subrange(i, j));
    lemma_blen_concat(cs.take(i), cs.subrange(i, j));
}
pub proof fn lemma_u16_bounds(cs: Seq<char>)
    ensures cs.len() <= u16_cs(cs) <= 2 * cs.len(),
    decreases cs.len(),
{
    broadcast use axiom_clen16;
    if cs.len() > 0 { lemma_u16_bounds(cs.drop_last()); }
}
pub proof fn lemma_u16_split(cs: Seq<char>, i: int, j: int, k: int)
    requires 0 <= i <= j <= k <= cs.len(),
    ensures u16_cs(cs.subrange(i, k)) == u16_cs(cs.subrange(i, j)) + u16_cs(cs.subrange(j, k)),
        (k - j) <= u16_cs(cs.subrange(j, k)) <= 2 * (k - j),
{
    assert(cs.subrange(i, k) =~= cs.subrange(i, j) + cs.subrange(j, k));
    lemma_blen_concat(cs.subrange(i, j), cs.subrange(j, k));
    lemma_u16_bounds(cs.subrange(j, k));
}

// ---- ASSUMED specifications of the std operations the text units use --------------------------
#[verifier::external_body]
pub fn vt_len(s: &str) -> (r: usize)
    ensures r == blen_cs(s@),
{ s.len() }

/// `&s[a..b]` — panics unless a <= b <= len and both are char boundaries
#[verifier::external_body]
pub fn vt_slice<'a>(s: &'a str, a: usize, b: usize) -> (r: &'a str)
    requires a <= b <= blen_cs(s@), is_cbt(s@, a as int), is_cbt(s@, b as int),
    ensures r@ == s@.subrange(cix(s@, a as int), cix(s@, b as int)),
{ &s[a..b] }

/// `&s[a..]`
#[verifier::external_body]
pub fn vt_slice_from<'a>(s: &'a str, a: usize) -> (r: &'a str)
    requires a <= blen_cs(s@), is_cbt(s@, a as int),
    ensures r@ == s@.subrange(cix(s@, a as int), s@.len() as int),
{ &s[a..] }

/// `s.find(c)`: byte index of the first occurrence of the char
#[verifier::external_body]
pub fn vt_find_char(s: &str, c: char) -> (r: Option<usize>)
    ensures
        r is Some ==> exists|k: int| 0 <= k < s@.len() && s@[k] == c && #[trigger] off(s@, k) == r->Some_0
            && (forall|j: int| 0 <= j < k ==> s@[j] != c),
        r is Some ==> r->Some_0 < blen_cs(s@),
        r is None ==> forall|j: int| 0 <= j < s@.len() ==> s@[j] != c,
{ s.find(c) }

/// `s.rfind(c)`: byte index of the last occurrence of the char
#[verifier::external_body]
pub fn vt_rfind_char(s: &str, c: char) -> (r: Option<usize>)
    ensures
        r is Some ==> exists|k: int| 0 <= k < s@.len() && s@[k] == c && #[trigger] off(s@, k) == r->Some_0
            && (forall|j: int| k < j < s@.len() ==> s@[j] != c),
        r is Some ==> r->Some_0 < blen_cs(s@),
        r is None ==> forall|j: int| 0 <= j < s@.len() ==> s@[j] != c,
{ s.rfind(c) }

/// `s.encode_utf16().count()`
#[verifier::external_body]
pub fn vt_utf16_count(s: &str) -> (r: usize)
    ensures r == u16_cs(s@),
{ s.encode_utf16().count() }

#[verifier::external_body]
pub fn vtc_len_utf8(c: char) -> (r: usize) ensures r == clen(c) { c.len_utf8() }
#[verifier::external_body]
pub fn vtc_len_utf16(c: char) -> (r: usize) ensures r == clen16(c) { c.len_utf16() }

#[verifier::external_body]
pub fn vu_min(a: usize, b: usize) -> (r: usize)
    ensures r == (if a <= b { a } else { b }),
{ a.min(b) }

/// `s.char_indices()`: yields (byte offset, char) for every char, in order, then None
#[verifier::external_body]
pub struct CharIndices<'a> { _s: &'a str }
pub uninterp spec fn ci_src(it: &CharIndices) -> Seq<char>;
pub uninterp spec fn ci_pos(it: &CharIndices) -> int;
#[verifier::external_body]
pub fn vt_char_indices<'a>(s: &'a str) -> (r: CharIndices<'a>)
    ensures ci_src(&r) == s@, ci_pos(&r) == 0,
{ unimplemented!() }
impl<'a> CharIndices<'a> {
    #[verifier::external_body]
    pub fn next(&mut self) -> (r: Option<(usize, char)>)
        requires 0 <= ci_pos(old(self)) <= ci_src(old(self)).len(),
        ensures ci_src(final(self)) == ci_src(old(self)),
            ci_pos(old(self)) >= ci_src(old(self)).len() ==> r is None && ci_pos(final(self)) == ci_pos(old(self)),
            ci_pos(old(self)) < ci_src(old(self)).len() ==> r == Some((off(ci_src(old(self)), ci_pos(old(self))) as usize, ci_src(old(self))[ci_pos(old(self))]))
                && ci_pos(final(self)) == ci_pos(old(self)) + 1,
    { unimplemented!() }
}
