// ---- prelude/str.rs: ghost byte-level model of `str` and ASSUMED specifications of the std
// string operations, `regex` matches and `line_numbers::LinePositions` that the front end uses.
// Every `external_body` item is an assumption taken from the documentation of the operation.

/// `t` is the sub-slice `s[a..b]`
pub open spec fn is_sub(t: &str, s: &str, a: int, b: int) -> bool {
    &&& 0 <= a <= b <= blen(s)
    &&& blen(t) == b - a
    &&& forall|k: int| 0 <= k <= b - a ==> (#[trigger] is_cb(t, k) <==> is_cb(s, a + k))
    &&& forall|x: int, y: int| 0 <= x <= y <= b - a ==> (#[trigger] no_nl(t, x, y) <==> no_nl(s, a + x, a + y))
    &&& forall|x: int, y: int| 0 <= x <= y <= b - a ==> (#[trigger] ws_only(t, x, y) <==> ws_only(s, a + x, a + y))
}

pub mod str_axioms {
    use super::*;
pub uninterp spec fn blen(s: &str) -> nat;                    // length in bytes (`str::len`)
pub uninterp spec fn is_cb(s: &str, i: int) -> bool;          // `str::is_char_boundary`
pub uninterp spec fn no_nl(s: &str, a: int, b: int) -> bool;  // no b'\n' among bytes a..b
pub uninterp spec fn fb_not_nl(s: &str) -> bool;              // non-empty and first byte is not b'\n'
pub uninterp spec fn line_of(s: &str, i: int) -> nat;         // 0-based line containing byte offset i
pub uninterp spec fn col_of(s: &str, i: int) -> nat;          // byte offset of i within its line
pub uninterp spec fn char_len(c: char) -> nat;                // `char::len_utf8`
pub uninterp spec fn ws_only(s: &str, a: int, b: int) -> bool; // bytes a..b are all whitespace

    #[verifier::external_body]
    pub broadcast proof fn axiom_cb_ends(s: &str)
        ensures #![trigger blen(s)] is_cb(s, 0) && is_cb(s, blen(s) as int),
    {}

    #[verifier::external_body]
    pub broadcast proof fn axiom_char_len(c: char)
        ensures 1 <= #[trigger] char_len(c) <= 4, (char_len(c) == 1 <==> (c as u32) < 128),
    {}

    /// bytes a..b hold no newline  ==>  a and b are on the same line, columns differ by b - a
    #[verifier::external_body]
    pub broadcast proof fn axiom_same_line(s: &str, a: int, b: int)
        requires 0 <= a <= b <= blen(s), #[trigger] no_nl(s, a, b),
        ensures line_of(s, b) == line_of(s, a), col_of(s, b) == col_of(s, a) + (b - a),
    {}

    #[verifier::external_body]
    pub broadcast proof fn axiom_no_nl_empty(s: &str, a: int)
        ensures #[trigger] no_nl(s, a, a),
    {}

    #[verifier::external_body]
    pub broadcast proof fn axiom_no_nl_split(s: &str, a: int, b: int, c: int)
        requires a <= b <= c,
        ensures #![trigger no_nl(s, a, b), no_nl(s, b, c)]
            (no_nl(s, a, b) && no_nl(s, b, c)) ==> no_nl(s, a, c),
    {}

    #[verifier::external_body]
    pub broadcast proof fn axiom_ws_empty(s: &str, a: int)
        ensures #[trigger] ws_only(s, a, a),
    {}

    /// Rust allocations are at most isize::MAX bytes
    #[verifier::external_body]
    pub broadcast proof fn axiom_blen_bound(s: &str)
        ensures #[trigger] blen(s) <= isize::MAX,
    {}

    /// line numbers are monotone in the offset
    #[verifier::external_body]
    pub broadcast proof fn axiom_line_mono(s: &str, a: int, b: int)
        requires 0 <= a <= b <= blen(s),
        ensures #![trigger line_of(s, a), line_of(s, b)] line_of(s, a) <= line_of(s, b),
    {}
}
pub use str_axioms::*;
broadcast use {str_axioms::axiom_cb_ends, str_axioms::axiom_char_len, str_axioms::axiom_same_line,
    str_axioms::axiom_no_nl_empty, str_axioms::axiom_blen_bound, str_axioms::axiom_line_mono, str_axioms::axiom_ws_empty};

#[verifier::external_body]
pub fn vs_len(s: &str) -> (r: usize)
    ensures r == blen(s),
{ s.len() }

/// `&s[a..]` — panics unless a <= len and a is a char boundary
#[verifier::external_body]
pub fn vs_slice_from<'a>(s: &'a str, a: usize) -> (r: &'a str)
    requires a <= blen(s), is_cb(s, a as int),
    ensures is_sub(r, s, a as int, blen(s) as int),
{ &s[a..] }

/// `&s[a..b]` — panics unless a <= b <= len and both are char boundaries
#[verifier::external_body]
pub fn vs_slice<'a>(s: &'a str, a: usize, b: usize) -> (r: &'a str)
    requires a <= b <= blen(s), is_cb(s, a as int), is_cb(s, b as int),
    ensures is_sub(r, s, a as int, b as int),
{ &s[a..b] }

/// `s.starts_with(c)` for a char pattern
#[verifier::external_body]
pub fn vs_starts_with_char(s: &str, c: char) -> (r: bool)
    ensures r ==> (blen(s) >= char_len(c) && is_cb(s, char_len(c) as int)
        && (c != '\n' ==> no_nl(s, 0, char_len(c) as int))),
{ s.starts_with(c) }

/// `s.starts_with(p)` for a string pattern
#[verifier::external_body]
pub fn vs_starts_with_str(s: &str, p: &str) -> (r: bool)
    ensures r ==> (blen(s) >= blen(p) && is_cb(s, blen(p) as int)
        && (no_nl(p, 0, blen(p) as int) ==> no_nl(s, 0, blen(p) as int))),
{ s.starts_with(p) }

/// `s.starts_with("lit")`; `n` is the literal's byte length, computed by the rewriter
#[verifier::external_body]
pub fn vs_starts_with_lit(s: &str, p: &str, n: usize, p_has_nl: bool) -> (r: bool)
    ensures r ==> (blen(s) >= n && is_cb(s, n as int) && (!p_has_nl ==> no_nl(s, 0, n as int))),
{ s.starts_with(p) }

#[verifier::external_body]
pub fn vs_ends_with_char(s: &str, c: char) -> (r: bool)
{ s.ends_with(c) }

/// `s.find(c)` for a char pattern: byte index of the first occurrence
#[verifier::external_body]
pub fn vs_find_char(s: &str, c: char) -> (r: Option<usize>)
    ensures
        r is Some ==> (r->Some_0 + char_len(c) <= blen(s) && is_cb(s, r->Some_0 as int)
            && is_cb(s, r->Some_0 + char_len(c)) && (c == '\n' ==> no_nl(s, 0, r->Some_0 as int))),
        r is None ==> (c == '\n' ==> no_nl(s, 0, blen(s) as int)),
{ s.find(c) }

/// `s.chars().next()`
#[verifier::external_body]
pub fn vs_first_char(s: &str) -> (r: Option<char>)
    ensures
        r is Some ==> (char_len(r->Some_0) <= blen(s) && is_cb(s, char_len(r->Some_0) as int)
            && (r->Some_0 != '\n' ==> no_nl(s, 0, char_len(r->Some_0) as int))),
        r is None ==> blen(s) == 0,
{ s.chars().next() }

#[verifier::external_body]
pub fn vc_is_whitespace(c: char) -> (r: bool)
    ensures (c == '\n' || c == ' ' || c == '\t' || c == '\r') ==> r,
{ c.is_whitespace() }

#[verifier::external_body]
pub fn vc_len_utf8(c: char) -> (r: usize)
    ensures r == char_len(c),
{ c.len_utf8() }

/// `s.split_once("\n")`
#[verifier::external_body]
pub fn vs_split_once_nl<'a>(s: &'a str) -> (r: Option<(&'a str, &'a str)>)
    ensures
        r is Some ==> (blen(r->Some_0.0) < blen(s) && is_sub(r->Some_0.0, s, 0, blen(r->Some_0.0) as int)
            && no_nl(s, 0, blen(r->Some_0.0) as int) && (fb_not_nl(s) ==> blen(r->Some_0.0) >= 1)),
        r is None ==> no_nl(s, 0, blen(s) as int),
{ s.split_once("\n") }

// ---- line_numbers::LinePositions ---------------------------------------------------------
#[verifier::external_body]
pub struct LinePositions { _o: u8 }
#[verifier::external_body]
pub struct LineNumber { _o: u8 }
pub uninterp spec fn lp_src(lp: &LinePositions) -> &str;
pub uninterp spec fn ln_val(l: &LineNumber) -> nat;

#[verifier::external_body]
pub fn vlp_new(s: &str) -> (r: LinePositions)
    ensures lp_src(&r) == s,
{ unimplemented!() }

/// `lp.from_offset(off)`: 0-based line and byte column of the offset (panics if off > len)
impl LinePositions {
    #[verifier::external_body]
    pub fn from_offset(&self, off: usize) -> (r: (LineNumber, usize))
        requires off <= blen(lp_src(self)),
        ensures ln_val(&r.0) == line_of(lp_src(self), off as int), r.1 == col_of(lp_src(self), off as int),
            r.1 <= off, ln_val(&r.0) <= off,
    { unimplemented!() }
}

impl LineNumber {
    #[verifier::external_body]
    pub fn as_usize(&self) -> (r: usize)
        ensures r == ln_val(self),
    { unimplemented!() }
}

// ---- regex::Regex::find for the four anchored lexer patterns -----------------------------
#[verifier::external_body]
pub struct ReMatch<'a> { _s: &'a str }
pub uninterp spec fn rm_end(m: &ReMatch) -> nat;
pub uninterp spec fn rm_str<'a>(m: &ReMatch<'a>) -> &'a str;

impl<'a> ReMatch<'a> {
    #[verifier::external_body]
    pub fn end(&self) -> (r: usize)
        ensures r == rm_end(self),
    { unimplemented!() }
    #[verifier::external_body]
    pub fn as_str(&self) -> (r: &'a str)
        ensures r == rm_str(self),
    { unimplemented!() }
}

/// common to every `^`-anchored pattern that cannot match the empty string
pub open spec fn re_match_ok(m: &ReMatch, s: &str) -> bool {
    0 < rm_end(m) <= blen(s) && is_cb(s, rm_end(m) as int) && is_sub(rm_str(m), s, 0, rm_end(m) as int)
}
